#!/usr/bin/env python3
# Regenerates /verif/MANIFEST.json from scripts/claims.json (claimed properties + reasons for the rest).
import json, subprocess
props=[json.loads(l) for l in open('/verif/properties.jsonl')]
base=json.load(open('/root/.vp/BASELINE.json'))
claims=json.load(open('/verif/scripts/claims.json'))
hooks=subprocess.run("git -C /repo log --format=%h --grep='^verif:'",shell=True,capture_output=True,text=True).stdout.split()
m={
 "version":1,
 "setup_cmd":"cd /verif/govc && GOFLAGS=-mod=mod GOPROXY=off GOSUMDB=off GOTOOLCHAIN=local go build -o /verif/bin/govc ./cmd/govc",
 "hooks":{"guard":"verif","enable":"go build tag 'verif' (govc loads /repo with -tags=verif; the only hook files are **/verif_contracts*.go: //@ contract comments and pure ghost functions)",
          "baseline_off_cmd":base["cmd"],"source_commits":hooks,"add_only":True},
 "engines":[{"name":"govc","path":"/verif/govc","serves_properties":sorted(claims["claimed"].keys()),"kind_free_text":"contract-based deductive verifier for Go built here: VC generation by guarded-merge symbolic execution over go/ssa (naive form) of /repo's working tree, contracts as //@ comments in build-tagged files compiled to harnesses through a go/packages overlay, obligations discharged by z3 5.1 / z3 4.8.12 / cvc5 1.0"}],
 "checks":[], "not_applicable":[],
 "notes":"See DESIGN.md. Known findings and fix: commits are listed in KNOWN_FINDINGS.jsonl. Seeded breaking changes used to test the checks are under seeded/."
}
for p in props:
    pid=p["id"]
    if pid in claims["claimed"]:
        c=claims["claimed"][pid]
        m["checks"].append({"property_id":pid,"quick_cmd":"scripts/check.sh %s quick"%pid,"thorough_cmd":"scripts/check.sh %s thorough"%pid,
          "evidence_file":"/verif/evidence/%s.json"%pid,"engine":"govc","technique":c.get("technique","contract-based deductive verification: weakest-precondition style VCs over go/ssa, discharged by SMT (z3/cvc5)"),
          "replay_cmd_template":"cat {path}",
          "level_claimed":{"category":"proof","text":c["text"],"design_ref":"DESIGN.md §3 "+pid},
          "level_note":c["note"]})
    else:
        m["not_applicable"].append({"property_id":pid,"reason":claims["not_applicable"].get(pid,"check not built yet at this commit (planned, see DESIGN.md §3)")})
json.dump(m,open('/verif/MANIFEST.json','w'),indent=1)
print("claimed:",sorted(claims["claimed"].keys()))
