#!/bin/sh
# usage: scripts/try_seed.sh <patch.diff> <property> [extra govc args]
# Applies a seeded change to /repo, runs the property's quick check, and always reverts.
patch=$(readlink -f "$1"); prop="$2"; shift 2
cd /repo || exit 2
if [ -n "$(git status --porcelain | grep -v '^??')" ]; then echo "REFUSING: /repo has uncommitted changes (commit them first)"; exit 4; fi
if ! git apply --check "$patch" 2>/dev/null; then
  if ! git apply --3way --check "$patch" 2>/dev/null; then echo "PATCH DOES NOT APPLY: $patch"; exit 3; fi
  git apply --3way "$patch"
else
  git apply "$patch"
fi
cd /verif && /verif/bin/govc check -prop "$prop" -no-evidence "$@" 2>&1 | grep -v '^  ' | sed 's/replay=[^ ]* //' | tail -8
cd /repo && git reset -q && git checkout -q -- . && git status --short | grep -v '^??' | head
