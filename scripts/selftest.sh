#!/bin/bash
# scripts/selftest.sh [seed-id ...]
# Must-fail / must-pass corpus for the checks themselves (not one of the MANIFEST commands): every seeded
# change under /verif/seeded is applied to a scratch worktree of /repo's HEAD (outside /repo and /verif,
# removed afterwards) and the property's check is run on that tree with `govc -repo`. Expected: a VIOLATION
# for every seed except those listed in seeded/EXPECTED_MISSED, no VIOLATION for seeded/benign/*.diff.
# /repo itself is never touched. Results go to seeded/RESULTS.txt.
export GOFLAGS=-mod=mod GOPROXY=off GOSUMDB=off GOTOOLCHAIN=local
cd /verif || exit 2
wt=/var/tmp/verif-selftest-$$
git -C /repo worktree add -q --detach "$wt" HEAD || exit 2
trap 'git -C /repo worktree remove --force "$wt" >/dev/null 2>&1; git -C /repo worktree prune' EXIT
fail=0
out=seeded/RESULTS.txt
[ $# -eq 0 ] && : > "$out"
run() { # id prop patch expect(caught|missed|quiet) only
  local id=$1 prop=$2 patch=$3 expect=$4 only=$5
  git -C "$wt" reset -q --hard HEAD && git -C "$wt" clean -qfd
  if ! git -C "$wt" apply "$patch" 2>/dev/null; then
    echo "$id $prop does-not-apply (superseded by a later fix) expect=$expect" | tee -a "$out"; return
  fi
  local args=(-repo "$wt" -prop "$prop" -no-evidence)
  [ -n "$only" ] && args+=(-only "$only")
  local n; n=$(bin/govc check "${args[@]}" 2>&1 | grep -c '^VIOLATION')
  local got=quiet; [ "$n" -gt 0 ] && got=caught
  if [ -n "$only" ] && [ "$expect" = caught ] && [ $got = quiet ]; then
    # the restricted run saw nothing: the catching contract may live in another package
    n=$(bin/govc check -repo "$wt" -prop "$prop" -no-evidence 2>&1 | grep -c '^VIOLATION')
    [ "$n" -gt 0 ] && got=caught
  fi
  local verdict=ok
  case "$expect" in
    caught) [ $got = caught ] || { verdict=REGRESSION; fail=1; } ;;
    quiet)  [ $got = quiet ] || { verdict=FALSE-ALARM; fail=1; } ;;
    missed) [ $got = caught ] && verdict="now-caught" ;;
  esac
  echo "$id $prop violations=$n expect=$expect $verdict" | tee -a "$out"
}
ids=("$@")
for d in seeded/C*; do
  id=$(basename "$d"); [ -f "$d/patch.diff" ] || continue
  if [ ${#ids[@]} -gt 0 ] && [[ ! " ${ids[*]} " =~ " $id " ]]; then continue; fi
  prop=${id%%-*}
  expect=caught; grep -qx "$id" seeded/EXPECTED_MISSED 2>/dev/null && expect=missed
  # restrict the run to the packages the patch touches (full property as a fallback inside run)
  only=$(python3 - "$d" <<'P'
import sys,re,os
names=set()
for line in open(sys.argv[1]+'/patch.diff'):
    m=re.match(r'\+\+\+ b/(.*)', line)
    if m:
        d=os.path.dirname(m.group(1))
        names.add(os.path.basename(d) if d else 'wazero')
print('\\b('+'|'.join(sorted(names))+')\\b' if names else '')
P
)
  run "$id" "$prop" "/verif/$d/patch.diff" "$expect" "$only"
done
if [ ${#ids[@]} -eq 0 ] || [[ " ${ids[*]} " =~ " benign " ]]; then
  for b in seeded/benign/*.diff; do
    for prop in $(grep -o 'C[0-9][0-9]' <<<"$(head -c 0 /dev/null)$(basename "$b")" | sort -u); do :; done
    case "$(basename "$b")" in
      b5_*) props="C02 C05 C07" ;;
      b6_*) props="C05 C08" ;;
      b7_*) props="C16 C20 C04" ;;
      *) props=$(python3 - "$b" <<'P'
import sys,re
t=open(sys.argv[1]).read()
ps=set()
if 'internal/wasm/binary' in t: ps.add('C03')
if 'interpreter' in t: ps.add('C05')
if 'memory.go' in t: ps.add('C14')
if 'store' in t or 'namespace' in t: ps.add('C10')
print(' '.join(sorted(ps)) or 'C03')
P
) ;;
    esac
    for prop in $props; do run "benign/$(basename "$b")" "$prop" "/verif/$b" quiet ""; done
  done
fi
exit $fail
