#!/bin/sh
# usage: scripts/check.sh <property> <quick|thorough>
# Rebuilds nothing of /verif (setup_cmd did), but every run reloads /repo's working tree with
# the contract overlay (build tag verif) and regenerates all verification conditions from it.
export GOFLAGS=-mod=mod GOPROXY=off GOSUMDB=off GOTOOLCHAIN=local
cd /verif || exit 2
if [ ! -x /verif/bin/govc ]; then
  (cd /verif/govc && go build -o /verif/bin/govc ./cmd/govc) || exit 2
fi
exec /verif/bin/govc check -prop "$1" -tier "${2:-quick}"
