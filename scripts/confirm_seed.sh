#!/bin/bash
# scripts/confirm_seed.sh <seed-dir> [demo-target-dir (default .)] [extra test packages...]
# Confirms a seeded change in a scratch worktree (outside /repo and /verif, removed afterwards):
#   1. patch applies to HEAD and builds;  2. demo FAILS with the patch;  3. demo PASSES without it;
#   4. the existing tests of the touched packages (+ root + extra) pass with the patch, demo absent.
set -u
export GOFLAGS=-mod=mod GOPROXY=off GOSUMDB=off GOTOOLCHAIN=local
seed=$(realpath "$1"); tgt=${2:-.}; shift; shift || true
wt=/tmp/wt-confirm-$$
git -C /repo worktree add -q --detach "$wt" HEAD || exit 2
trap 'git -C /repo worktree remove --force "$wt" >/dev/null 2>&1' EXIT
cd "$wt" || exit 2
demo=$(ls "$seed"/*_test.go | head -1)
run=$(grep -ho '^func Test[A-Za-z0-9_]*' "$demo" | sed 's/func //' | paste -sd'|')
ok=1
git apply "$seed/patch.diff" || { echo "CONFIRM $seed: patch does not apply"; exit 1; }
go build ./... || { echo "CONFIRM $seed: does not build"; exit 1; }
pkgs=$(git diff --name-only | xargs -n1 dirname | sort -u | sed 's|^|./|')
if go test -count=1 -timeout 600s . $pkgs "$@" >"$wt.log" 2>&1; then echo "  existing tests pass with patch: . $pkgs $*"; else echo "  EXISTING TESTS FAIL with patch"; tail -20 "$wt.log"; ok=0; fi
cp "$demo" "$tgt/"
if go test -count=1 -timeout 300s -run "^($run)\$" "./$tgt" >"$wt.log" 2>&1; then echo "  DEMO PASSES WITH PATCH (not a demonstration)"; ok=0; else echo "  demo fails with patch: $(grep -m1 -E '^\s+.*_test.go:[0-9]+:|panic|FAIL' "$wt.log" | head -c 300)"; fi
git checkout -q -- .
if go test -count=1 -timeout 300s -run "^($run)\$" "./$tgt" >"$wt.log" 2>&1; then echo "  demo passes on clean tree"; else echo "  DEMO FAILS ON CLEAN TREE"; tail -20 "$wt.log"; ok=0; fi
rm -f "$wt.log"
[ $ok = 1 ] && echo "CONFIRMED $(basename "$seed")" || { echo "NOT CONFIRMED $(basename "$seed")"; exit 1; }
