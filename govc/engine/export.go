package engine

import "golang.org/x/tools/go/ssa"

func ShortFn(fn *ssa.Function) string { return shortFn(fn) }
