package engine

import (
	"strconv"
	"regexp"
	"time"
	"os"
	"fmt"
	"go/constant"
	"go/token"
	"go/types"
	"sort"
	"strings"

	"govc/smt"

	"golang.org/x/tools/go/ssa"
)

// ---------------------------------------------------------------------------
// function execution

func rpo(fn *ssa.Function) []*ssa.BasicBlock {
	seen := map[*ssa.BasicBlock]bool{}
	var post []*ssa.BasicBlock
	var dfs func(b *ssa.BasicBlock)
	dfs = func(b *ssa.BasicBlock) {
		seen[b] = true
		for _, s := range b.Succs {
			if !seen[s] {
				dfs(s)
			}
		}
		post = append(post, b)
	}
	if len(fn.Blocks) > 0 {
		dfs(fn.Blocks[0])
	}
	for i, j := 0, len(post)-1; i < j; i, j = i+1, j-1 {
		post[i], post[j] = post[j], post[i]
	}
	return post
}

func (e *Exec) findLoops(fn *ssa.Function, order []*ssa.BasicBlock) map[*ssa.BasicBlock]*loopInfo {
	loops := map[*ssa.BasicBlock]*loopInfo{}
	for _, b := range order {
		for _, s := range b.Succs {
			if s.Dominates(b) {
				li := loops[s]
				if li == nil {
					li = &loopInfo{header: s, blocks: map[*ssa.BasicBlock]bool{s: true}}
					loops[s] = li
				}
				// natural loop: nodes reaching b without passing s
				var stack []*ssa.BasicBlock
				if !li.blocks[b] {
					li.blocks[b] = true
					stack = append(stack, b)
				}
				for len(stack) > 0 {
					x := stack[len(stack)-1]
					stack = stack[:len(stack)-1]
					for _, p := range x.Preds {
						if !li.blocks[p] {
							li.blocks[p] = true
							stack = append(stack, p)
						}
					}
				}
			}
		}
	}
	var hs []*ssa.BasicBlock
	for h := range loops {
		hs = append(hs, h)
	}
	sort.Slice(hs, func(i, j int) bool { return hs[i].Index < hs[j].Index })
	for n, h := range hs {
		li := loops[h]
		li.n = n
		for _, b := range order {
			if li.blocks[b] {
				li.order = append(li.order, b)
			}
		}
	}
	return loops
}

type edgeState struct {
	from *ssa.BasicBlock
	st   *State
}

type region struct {
	fr     *frame
	blocks map[*ssa.BasicBlock]bool // nil = whole function
	order  []*ssa.BasicBlock
	header *ssa.BasicBlock // entry; edges back to it are collected in backs
	in     map[*ssa.BasicBlock][]edgeState
	exits  func(to *ssa.BasicBlock, es edgeState)
	backs  []edgeState
	done   map[*ssa.BasicBlock]bool
}

// runFunc symbolically executes fn from state st; returns merged result and exit state.
func (e *Exec) runFunc(fn *ssa.Function, args []*smt.Term, bindings []*smt.Term, st *State, con *Contract) (*smt.Term, *State) {
	if len(fn.Blocks) == 0 {
		unsupported("function without body: %s", fn)
	}
	for _, f := range e.frames {
		if f.fn == fn {
			unsupported("recursion into %s", fn)
		}
	}
	fr := &frame{fn: fn, vals: map[ssa.Value]*smt.Term{}, con: con, bindings: bindings, cellOK: map[*ssa.Alloc]bool{}}
	for i, p := range fn.Params {
		fr.vals[p] = args[i]
	}
	for i, fv := range fn.FreeVars {
		fr.vals[fv] = bindings[i]
	}
	e.frames = append(e.frames, fr)
	defer func() { e.frames = e.frames[:len(e.frames)-1] }()
	fr.entrySnap = st.Clone()
	order := rpo(fn)
	fr.loops = e.findLoops(fn, order)
	rg := &region{fr: fr, order: order, in: map[*ssa.BasicBlock][]edgeState{}, done: map[*ssa.BasicBlock]bool{}}
	rg.in[fn.Blocks[0]] = []edgeState{{nil, st}}
	e.runRegion(rg)
	// merge returns
	var sts []*State
	e.lastRetPaths = nil
	for _, r := range fr.rets {
		sts = append(sts, r.st)
		if !r.st.Dead() {
			e.lastRetPaths = append(e.lastRetPaths, r.st.Path)
		}
	}
	out := e.merge(sts)
	var res *smt.Term
	var live []retRec
	for _, r := range fr.rets {
		if !r.st.Dead() {
			live = append(live, r)
		}
	}
	if len(live) > 0 {
		rs := make([]*smt.Term, len(live))
		for i, r := range live {
			rs[i] = r.st.Path
		}
		conds := stripCommon(rs)
		res = live[len(live)-1].res
		for i := len(live) - 2; i >= 0; i-- {
			if live[i].res != res && res != nil {
				res = smt.Ite(conds[i], live[i].res, res)
			}
		}
	} else {
		res = e.W.Zero(fn.Signature.Results())
	}
	// drop callee locals
	for _, l := range fn.Locals {
		delete(out.Cells, l)
	}
	for _, d := range fr.defers {
		delete(out.Defer, d)
	}
	return res, out
}

func (e *Exec) runRegion(rg *region) {
	fr := rg.fr
	for _, b := range rg.order {
		if rg.done[b] {
			continue
		}
		ins := rg.in[b]
		if len(ins) == 0 {
			continue
		}
		if li := fr.loops[b]; li != nil && b != rg.header {
			// a (nested) loop: process it as its own region
			var sts []*State
			for _, es := range ins {
				sts = append(sts, es.st)
			}
			e.bindPhis(fr, b, ins)
			pre := e.merge(sts)
			e.processLoop(rg, li, pre)
			for x := range li.blocks {
				rg.done[x] = true
			}
			continue
		}
		var st *State
		if len(ins) == 1 {
			e.bindPhis(fr, b, ins)
			st = ins[0].st
		} else {
			e.bindPhis(fr, b, ins)
			sts := make([]*State, len(ins))
			for i, es := range ins {
				sts[i] = es.st
			}
			st = e.merge(sts)
		}
		rg.done[b] = true
		if st.Dead() {
			continue
		}
		e.execBlock(rg, b, st)
	}
}

func (e *Exec) deliver(rg *region, from, to *ssa.BasicBlock, st *State) {
	if st.Dead() {
		return
	}
	es := edgeState{from, st}
	if to == rg.header && rg.header != nil {
		rg.backs = append(rg.backs, es)
		return
	}
	if rg.blocks != nil && !rg.blocks[to] {
		rg.exits(to, es)
		return
	}
	rg.in[to] = append(rg.in[to], es)
}

// bindPhis computes phi values of block b from the incoming edge states.
func (e *Exec) bindPhis(fr *frame, b *ssa.BasicBlock, ins []edgeState) {
	for phi, v := range e.phiValues(fr, b, ins) {
		fr.vals[phi] = v
	}
}

func (e *Exec) phiValues(fr *frame, b *ssa.BasicBlock, ins []edgeState) map[*ssa.Phi]*smt.Term {
	out := map[*ssa.Phi]*smt.Term{}
	for _, instr := range b.Instrs {
		phi, ok := instr.(*ssa.Phi)
		if !ok {
			break
		}
		var v *smt.Term
		rs := make([]*smt.Term, len(ins))
		for i, es := range ins {
			rs[i] = es.st.Path
		}
		conds := stripCommon(rs)
		for i := len(ins) - 1; i >= 0; i-- {
			es := ins[i]
			idx := -1
			for k, p := range b.Preds {
				if p == es.from {
					idx = k
				}
			}
			if idx < 0 {
				unsupported("phi without matching pred in %s", fr.fn)
			}
			x := e.val(fr, es.st, phi.Edges[idx])
			if v == nil {
				v = x
			} else if x != v {
				v = smt.Ite(conds[i], x, v)
			}
		}
		out[phi] = v
	}
	return out
}

func headerPhis(b *ssa.BasicBlock) []*ssa.Phi {
	var out []*ssa.Phi
	for _, instr := range b.Instrs {
		phi, ok := instr.(*ssa.Phi)
		if !ok {
			break
		}
		out = append(out, phi)
	}
	return out
}

// havocPhis gives the loop-carried phis of a cut loop arbitrary values.
func (e *Exec) havocPhis(fr *frame, st *State, b *ssa.BasicBlock) {
	for _, phi := range headerPhis(b) {
		fr.vals[phi] = e.freshVal(st, "phi."+phi.Comment, phi.Type())
	}
}

const maxSpecUnroll = 80

func (e *Exec) processLoop(outer *region, li *loopInfo, pre *State) {
	fr := outer.fr
	if pre.Dead() {
		return
	}
	var spec *LoopSpec
	if fr.con != nil {
		spec = fr.con.Loops[li.n]
	}
	exits := func(to *ssa.BasicBlock, es edgeState) {
		if spec != nil && e.mute == 0 {
			for k, cl := range spec.ExitAssume {
				es.st.Assume(e.evalInvNamed(fr, spec, li, fmt.Sprintf("x%d", k), es.st))
				e.W.Note(fmt.Sprintf("assumed loop summary in %s loop %d: %s", fr.con.Display(), li.n, cl.Expr))
			}
		}
		e.deliver(outer, es.from, to, es.st)
	}
	unroll := 0
	if spec != nil && spec.Unroll > 0 {
		unroll = spec.Unroll
	} else if e.spec > 0 && (spec == nil || len(spec.Invs) == 0) {
		unroll = maxSpecUnroll
	}
	if unroll > 0 {
		st := pre
		for k := 0; ; k++ {
			if st.Dead() {
				return
			}
			if k >= unroll {
				if spec != nil && len(spec.Invs) > 0 {
					// the first iterations were executed exactly; the rest is summarised by the invariants
					pre = st
					goto cut
				}
				if e.spec > 0 {
					unsupported("spec loop in %s not finished after %d iterations", fr.fn, unroll)
				}
				e.check(st, "unwind", smt.False, li.header.Instrs[0].Pos(), fmt.Sprintf("loop%d", li.n))
				return
			}
			rg := &region{fr: fr, blocks: li.blocks, order: li.order, header: li.header,
				in: map[*ssa.BasicBlock][]edgeState{}, done: map[*ssa.BasicBlock]bool{}}
			rg.exits = func(to *ssa.BasicBlock, es edgeState) {
				e.saveLiveOuts(fr, li, es.st)
				exits(to, es)
			}
			e.execBlock(rg, li.header, st)
			rg.done[li.header] = true
			e.runRegion(rg)
			var sts []*State
			for _, b := range rg.backs {
				sts = append(sts, b.st)
			}
			if len(rg.backs) > 0 {
				e.bindPhis(fr, li.header, rg.backs)
			}
			st = e.merge(sts)
		}
	}
cut:
	// cut the loop with invariants
	pos := token.NoPos
	for _, in := range li.header.Instrs {
		if in.Pos().IsValid() {
			pos = in.Pos()
			break
		}
	}
	if spec != nil {
		for k, cl := range spec.Invs {
			g := e.evalInv(fr, spec, li, k, pre)
			e.check(pre, "inv-init", g, pos, e.invLabel(li, k, cl))
		}
	}
	ms := e.discover(fr, li, pre)
	st := pre.Clone()
	e.havocMods(st, ms)
	e.havocPhis(fr, st, li.header)
	if spec != nil {
		for k := range spec.Invs {
			st.Assume(e.evalInv(fr, spec, li, k, st))
		}
	}
	rg := &region{fr: fr, blocks: li.blocks, order: li.order, header: li.header,
		in: map[*ssa.BasicBlock][]edgeState{}, done: map[*ssa.BasicBlock]bool{}}
	rg.exits = exits
	e.execBlock(rg, li.header, st)
	rg.done[li.header] = true
	e.runRegion(rg)
	if spec != nil {
		for _, b := range rg.backs {
			saved := map[*ssa.Phi]*smt.Term{}
			for phi, v := range e.phiValues(fr, li.header, []edgeState{b}) {
				saved[phi] = fr.vals[phi]
				fr.vals[phi] = v
			}
			for k, cl := range spec.Invs {
				g := e.evalInv(fr, spec, li, k, b.st)
				e.check(b.st, "inv-pres", g, pos, e.invLabel(li, k, cl))
			}
			for phi, v := range saved {
				fr.vals[phi] = v
			}
		}
	}
}

func (e *Exec) invLabel(li *loopInfo, k int, cl Clause) string {
	if cl.Label != "" {
		return fmt.Sprintf("loop%d.%s", li.n, cl.Label)
	}
	return fmt.Sprintf("loop%d.%d", li.n, k)
}

func (e *Exec) saveLiveOuts(fr *frame, li *loopInfo, st *State) {
	for b := range li.blocks {
		for _, in := range b.Instrs {
			v, ok := in.(ssa.Value)
			if !ok {
				continue
			}
			t, ok := fr.vals[v]
			if !ok {
				continue
			}
			refs := v.Referrers()
			if refs == nil {
				continue
			}
			for _, r := range *refs {
				if r.Block() != nil && !li.blocks[r.Block()] {
					if st.Over == nil {
						st.Over = map[ssa.Value]*smt.Term{}
					}
					st.Over[v] = t
					break
				}
			}
		}
	}
}

// discover finds what the loop body may modify (fixpoint over a muted execution).
func (e *Exec) discover(fr *frame, li *loopInfo, pre *State) *modset {
	ms := newModset()
	ms.minSeq = e.allocSeq
	ms.startID = smt.NextID()
	saveDisc, saveObls := e.disc, len(e.Obls)
	saveCounters := map[string]int{}
	for k, v := range e.counters {
		saveCounters[k] = v
	}
	saveVals := map[ssa.Value]*smt.Term{}
	for k, v := range fr.vals {
		saveVals[k] = v
	}
	e.mute++
	defer func() {
		e.mute--
		e.disc = saveDisc
		e.Obls = e.Obls[:saveObls]
		e.counters = saveCounters
		fr.vals = saveVals
		if saveDisc != nil {
			for k := range ms.heaps {
				saveDisc.heaps[k] = true
			}
			for k, as := range ms.addrs {
				for _, a := range as {
					if a.ID < saveDisc.startID && !saveDisc.heaps[k] {
						saveDisc.addrs[k] = append(saveDisc.addrs[k], a)
					} else {
						saveDisc.heaps[k] = true
					}
				}
			}
			for k := range ms.cells {
				saveDisc.cells[k] = true
			}
			for k := range ms.ghost {
				saveDisc.ghost[k] = true
			}
			if ms.all {
				saveDisc.all = true
			}
			if ms.alloc {
				saveDisc.alloc = true
			}
		}
	}()
	for iter := 0; iter < 8; iter++ {
		before := ms.size()
		st := pre.Clone()
		e.havocMods(st, ms)
		e.havocPhis(fr, st, li.header)
		e.disc = ms
		rg := &region{fr: fr, blocks: li.blocks, order: li.order, header: li.header,
			in: map[*ssa.BasicBlock][]edgeState{}, done: map[*ssa.BasicBlock]bool{}}
		rg.exits = func(to *ssa.BasicBlock, es edgeState) {}
		e.execBlock(rg, li.header, st)
		rg.done[li.header] = true
		e.runRegion(rg)
		if ms.size() == before {
			break
		}
	}
	return ms
}

func (e *Exec) havocMods(st *State, ms *modset) {
	e.approx++
	if ms.all {
		for k := range st.Heaps {
			delete(st.Heaps, k)
		}
		st.Epoch = e.newEpoch()
	} else {
		var ks []string
		for k := range ms.heaps {
			ks = append(ks, k)
		}
		sort.Strings(ks)
		for _, k := range ks {
			st.Heaps[k] = e.fresh("L|"+k, e.heapSort[k])
		}
		// heaps written only at loop-invariant addresses: forget just those locations
		var aks []string
		for k := range ms.addrs {
			if !ms.heaps[k] {
				aks = append(aks, k)
			}
		}
		sort.Strings(aks)
		for _, k := range aks {
			hs := e.heapSort[k]
			h := e.heap(st, k, hs)
			for _, a := range ms.addrs[k] {
				h = smt.Store(h, a, e.fresh("L@"+k, hs.Elem))
			}
			st.Heaps[k] = h
		}
	}
	var cs []*ssa.Alloc
	for c := range ms.cells {
		cs = append(cs, c)
	}
	sort.Slice(cs, func(i, j int) bool { return cs[i].Pos() < cs[j].Pos() || cs[i].Pos() == cs[j].Pos() && cs[i].Name() < cs[j].Name() })
	for _, c := range cs {
		t := c.Type().Underlying().(*types.Pointer).Elem()
		if _, live := st.Cells[c]; !live {
			continue
		}
		st.Cells[c] = e.freshVal(st, "l."+c.Comment, t)
		if c.Comment == "rangeindex" {
			// compiler-generated range counter: starts at -1 and only ever increments below len
			e.Axiom(smt.BVSle(smt.Const(64, ^uint64(0)), st.Cells[c]))
			e.Axiom(smt.BVSle(st.Cells[c], cap48))
		}
	}
	var gs []string
	for g := range ms.ghost {
		gs = append(gs, g)
	}
	sort.Strings(gs)
	for _, g := range gs {
		if old, ok := st.Ghost[g]; ok {
			st.Ghost[g] = e.fresh("g."+g, old.S)
		}
	}
	if ms.alloc || ms.all {
		na := e.fresh("alloc", BV64)
		e.Axiom(smt.BVUle(st.Alloc, na))
		e.Axiom(smt.BVUle(na, smt.Const(64, 1<<61)))
		st.Alloc = na
	}
}

// evalInv evaluates invariant k of the loop in state st (spec mode, no obligations).
func (e *Exec) evalInv(fr *frame, spec *LoopSpec, li *loopInfo, k int, st *State) *smt.Term {
	return e.evalInvNamed(fr, spec, li, fmt.Sprintf("%d", k), st)
}

func (e *Exec) evalInvNamed(fr *frame, spec *LoopSpec, li *loopInfo, k string, st *State) *smt.Term {
	con := fr.con
	name := fmt.Sprintf("verif_I_%d_%d_%s", con.ID, spec.N, k)
	pkg := e.W.Pkgs[con.Pkg]
	if pkg == nil {
		unsupported("package %s not loaded", con.Pkg)
	}
	f := pkg.Func(name)
	if f == nil {
		unsupported("invariant function %s missing", name)
	}
	args := make([]*smt.Term, len(f.Params))
	nContract := len(con.Params)
	if con.Recv != nil {
		nContract++
	}
	for i, p := range f.Params {
		var a *ssa.Alloc
		if i < nContract {
			// a parameter of the function under contract, even if a loop variable shadows its name
			a = e.paramCell(fr, p.Name())
		}
		if a == nil {
			a = e.findLocal(fr, p.Name(), li)
		}
		if a == nil {
			// hidden loop-carried registers (range loops): bound by phi comment
			var found *smt.Term
			for _, phi := range headerPhis(li.header) {
				if phi.Comment == p.Name() {
					found = fr.vals[phi]
				}
			}
			if found == nil && len(p.Name()) >= 2 && p.Name()[0] == 'p' && p.Name()[1] >= '0' && p.Name()[1] <= '9' {
				// a blank parameter of the target (named pN only in the harness): unused by construction
				found = e.freshVal(st, "blank", p.Type())
			}
			if found == nil {
				unsupported("invariant of %s loop %d: no variable %q", con.Display(), spec.N, p.Name())
			}
			args[i] = found
			continue
		}
		args[i] = e.readAlloc(fr, st, a)
	}
	tmp := st.Clone()
	e.spec++
	res, _ := e.inlineCall(tmp, f, args, nil, nil)
	e.spec--
	return res
}

// paramCell: the cell the naive form stores the named parameter into at function entry.
func (e *Exec) paramCell(fr *frame, name string) *ssa.Alloc {
	for _, p := range fr.fn.Params {
		if p.Name() != name || p.Referrers() == nil {
			continue
		}
		for _, r := range *p.Referrers() {
			if st, ok := r.(*ssa.Store); ok && st.Val == p {
				if a, ok := st.Addr.(*ssa.Alloc); ok {
					return a
				}
			}
		}
	}
	return nil
}

// findLocal finds the Alloc of the named source variable (params, results, locals).
func (e *Exec) findLocal(fr *frame, name string, li *loopInfo) *ssa.Alloc {
	var best *ssa.Alloc
	consider := func(a *ssa.Alloc) {
		if a.Comment != name {
			return
		}
		if best == nil {
			best = a
			return
		}
		// prefer the latest declaration that precedes the loop header
		hp := token.NoPos
		if li != nil {
			for _, in := range li.header.Instrs {
				if in.Pos().IsValid() {
					hp = in.Pos()
					break
				}
			}
		}
		if a.Pos() > best.Pos() && (hp == token.NoPos || a.Pos() <= hp) {
			best = a
		}
	}
	for _, l := range fr.fn.Locals {
		consider(l)
	}
	for _, b := range fr.fn.Blocks {
		for _, in := range b.Instrs {
			if a, ok := in.(*ssa.Alloc); ok && a.Heap {
				consider(a)
			}
		}
	}
	// compiler-made loop variables (rangeindex, ...) have no position and one Alloc per loop: take the
	// one the loop header itself stores to
	if li != nil && best != nil && !best.Pos().IsValid() {
		for _, in := range li.header.Instrs {
			if stn, ok := in.(*ssa.Store); ok {
				if a, ok := stn.Addr.(*ssa.Alloc); ok && a.Comment == name {
					return a
				}
			}
		}
	}
	return best
}

func (e *Exec) readAlloc(fr *frame, st *State, a *ssa.Alloc) *smt.Term {
	t := a.Type().Underlying().(*types.Pointer).Elem()
	if e.isCell(fr, a) {
		if v, ok := st.Cells[a]; ok {
			return v
		}
		return e.W.Zero(t)
	}
	addr, ok := fr.vals[a]
	if !ok {
		return e.W.Zero(t)
	}
	return e.load(st, addr, t)
}

// isCell: non-escaping scalar local handled as a Go-level variable.
func (e *Exec) isCell(fr *frame, a *ssa.Alloc) bool {
	if ok, seen := fr.cellOK[a]; seen {
		return ok
	}
	ok := !a.Heap && !isAggregate(a.Type().Underlying().(*types.Pointer).Elem())
	if ok {
		if refs := a.Referrers(); refs != nil {
			for _, r := range *refs {
				switch x := r.(type) {
				case *ssa.Store:
					if x.Addr != a || x.Val == ssa.Value(a) {
						ok = false
					}
				case *ssa.UnOp:
					if x.Op != token.MUL {
						ok = false
					}
				case *ssa.DebugRef:
				default:
					ok = false
				}
			}
		}
	}
	fr.cellOK[a] = ok
	return ok
}

// ---------------------------------------------------------------------------
// values

func (e *Exec) val(fr *frame, st *State, v ssa.Value) *smt.Term {
	if st != nil && st.Over != nil {
		if t, ok := st.Over[v]; ok {
			return t
		}
	}
	if t, ok := fr.vals[v]; ok {
		return t
	}
	switch x := v.(type) {
	case *ssa.Const:
		return e.constVal(x)
	case *ssa.Function:
		return smt.Closure(x, x.String(), FuncS)
	case *ssa.Global:
		return e.globalAddr(x)
	case *ssa.Builtin:
		return smt.Closure(x, "builtin:"+x.Name(), FuncS)
	}
	unsupported("value %s (%T) undefined in %s", v.Name(), v, fr.fn)
	return nil
}

var globalIDs = map[string]uint64{}

func (e *Exec) globalAddr(g *ssa.Global) *smt.Term {
	k := g.String()
	id, ok := globalIDs[k]
	if !ok {
		id = uint64(len(globalIDs) + 16)
		if id >= 4096 {
			unsupported("too many globals")
		}
		globalIDs[k] = id
	}
	return Obj(smt.Const(64, id))
}

func (e *Exec) constVal(c *ssa.Const) *smt.Term {
	t := c.Type()
	if c.Value == nil {
		return e.W.Zero(t)
	}
	switch u := t.Underlying().(type) {
	case *types.Basic:
		switch {
		case u.Info()&types.IsBoolean != 0:
			return smt.BoolConst(constant.BoolVal(c.Value))
		case u.Info()&types.IsString != 0:
			return smt.StrLit(StrS, constant.StringVal(c.Value))
		case u.Info()&types.IsInteger != 0:
			w := e.W.SortOf(t).W
			if i, ok := constant.Int64Val(c.Value); ok {
				return smt.Const(w, uint64(i))
			}
			if u64, ok := constant.Uint64Val(c.Value); ok {
				return smt.Const(w, u64)
			}
			unsupported("integer constant %s", c.Value)
		case u.Info()&types.IsFloat != 0:
			f, _ := constant.Float64Val(c.Value)
			if u.Kind() == types.Float32 {
				return smt.Const(32, uint64(f32bits(float32(f))))
			}
			return smt.Const(64, f64bits(f))
		}
	}
	unsupported("constant of type %s", t)
	return nil
}

// ---------------------------------------------------------------------------
// blocks and instructions

func (e *Exec) execBlock(rg *region, b *ssa.BasicBlock, st *State) {
	fr := rg.fr
	for _, instr := range b.Instrs {
		if st.Dead() {
			return
		}
		switch x := instr.(type) {
		case *ssa.Phi, *ssa.DebugRef:
			continue
		case *ssa.If:
			c := e.fold(e.val(fr, st, x.Cond))
			if debugFold && len(e.facts) > 0 && !c.IsTrue() && !c.IsFalse() && debugFoldN < 40 {
				debugFoldN++
				fmt.Fprintf(os.Stderr, "unfolded branch in %s: %s\n", fr.fn.Name(), c.Short(400))
				if debugFoldN == 1 {
					for k, v := range e.facts {
						fmt.Fprintf(os.Stderr, "  fact %s := %s\n", k.Short(300), v.Short(40))
					}
				}
			}
			if len(e.frames) == 2 { // the function under contract itself, not its inlined callees
				c = e.decideBranch(st, c)
			}
			s1 := st.Clone()
			s1.Branch(c)
			s2 := st
			s2.Branch(smt.Not(c))
			e.deliver(rg, b, b.Succs[0], s1)
			e.deliver(rg, b, b.Succs[1], s2)
			return
		case *ssa.Jump:
			e.deliver(rg, b, b.Succs[0], st)
			return
		case *ssa.Return:
			var rs []*smt.Term
			for _, r := range x.Results {
				rs = append(rs, e.val(fr, st, r))
			}
			var res *smt.Term
			switch len(rs) {
			case 0:
				res = smt.TupleOf()
			case 1:
				res = rs[0]
			default:
				res = smt.TupleOf(rs...)
			}
			fr.rets = append(fr.rets, retRec{st, res})
			return
		case *ssa.Panic:
			e.doPanic(st, e.val(fr, st, x.X), x.Pos())
			return
		case *ssa.RunDefers:
			st = e.runDefers(fr, st)
			continue
		default:
			e.execInstr(fr, st, instr)
		}
	}
}

// doPanic: an explicit panic is reachable only under the contract's may-panic conditions.
func (e *Exec) doPanic(st *State, v *smt.Term, pos token.Pos) {
	if e.spec > 0 {
		st.Reach = smt.False
		return
	}
	goal := smt.False
	if len(e.mayPanic) > 0 {
		goal = smt.Or(e.mayPanic...)
	}
	e.check(st, "panic-reach", goal, pos, "")
	st.Reach = smt.False
}

func (e *Exec) runDefers(fr *frame, st *State) *State {
	for i := len(fr.defers) - 1; i >= 0; i-- {
		d := fr.defers[i]
		rec, ok := st.Defer[d]
		if !ok || rec.On.IsFalse() {
			continue
		}
		if rec.On.IsTrue() {
			delete(st.Defer, d)
			e.callCommon(fr, st, &d.Call, d, rec)
			continue
		}
		s1 := st.Clone()
		s1.Branch(rec.On)
		delete(s1.Defer, d)
		e.callCommon(fr, s1, &d.Call, d, rec)
		s2 := st
		s2.Branch(smt.Not(rec.On))
		delete(s2.Defer, d)
		st = e.merge([]*State{s1, s2})
	}
	return st
}

func intInfo(t types.Type) (w int, signed bool, ok bool) {
	b, isB := t.Underlying().(*types.Basic)
	if !isB || b.Info()&types.IsInteger == 0 {
		return 0, false, false
	}
	signed = b.Info()&types.IsUnsigned == 0
	switch b.Kind() {
	case types.Int8, types.Uint8:
		w = 8
	case types.Int16, types.Uint16:
		w = 16
	case types.Int32, types.Uint32, types.UntypedRune:
		w = 32
	default:
		w = 64
	}
	return w, signed, true
}

func isFloat(t types.Type) bool {
	b, ok := t.Underlying().(*types.Basic)
	return ok && b.Info()&types.IsFloat != 0
}
func isString(t types.Type) bool {
	b, ok := t.Underlying().(*types.Basic)
	return ok && b.Info()&types.IsString != 0
}

// toIndex converts an integer value of Go type t to a 64-bit index.
func toIndex(v *smt.Term, t types.Type) *smt.Term {
	w, signed, ok := intInfo(t)
	if !ok {
		unsupported("index of type %s", t)
	}
	if w == 64 {
		return v
	}
	if signed {
		return smt.SignExt(v, 64)
	}
	return smt.ZeroExt(v, 64)
}

// decideBranch (case contracts only): a switch arm `x == constant` that the facts do not decide
// syntactically is put to the solver under the current hypothesis; an arm that cannot be taken is pruned,
// an arm that must be taken pins x for the rest of the function. Pruning an infeasible branch is sound
// whatever the answer's origin; an undecided query (timeout) keeps both branches.
func (e *Exec) decideBranch(st *State, c *smt.Term) *smt.Term {
	if len(e.facts) == 0 || e.spec > 0 || c.IsTrue() || c.IsFalse() || e.branchQueries >= 400 || !e.decideOn() {
		return c
	}
	if c.Op != "=" || len(c.Args) != 2 || !(c.Args[0].IsConst() || c.Args[1].IsConst()) || c.HasBound {
		return c
	}
	x, k := c.Args[0], c.Args[1]
	if x.IsConst() {
		x, k = k, x
	}
	// answers are valid under the hypothesis they were obtained for, and under any stronger one
	conj := map[*smt.Term]bool{}
	var addConj func(t *smt.Term)
	addConj = func(t *smt.Term) {
		if t.Op == "and" {
			for _, a := range t.Args {
				addConj(a)
			}
			return
		}
		conj[t] = true
	}
	addConj(st.Reach)
	covers := func(h []*smt.Term) bool {
		for _, t := range h {
			if !conj[t] {
				return false
			}
		}
		return true
	}
	flat := func() []*smt.Term {
		var out []*smt.Term
		for t := range conj {
			out = append(out, t)
		}
		return out
	}
	for _, p := range e.pins {
		if p.x == x && covers(p.hyp) {
			return smt.BoolConst(p.k.Val == k.Val)
		}
	}
	for _, m := range e.branchAns {
		if m.c == c && covers(m.hyp) {
			return m.res
		}
	}
	if e.branchDir == "" {
		e.branchDir = os.TempDir() // (each query file is removed as soon as it is answered)
	}
	hyp := e.hyp(st)
	query := func(asserts []*smt.Term, vals []*smt.Term) smt.Result {
		e.branchQueries++
		return smt.SolveOne(e.branchDir, fmt.Sprintf("govc-branch-%d-%p-%d", os.Getpid(), e, e.branchQueries), smt.Script(asserts, vals, len(vals) > 0), 2*time.Second)
	}
	// first try to pin the switched value in two queries: a model value, then "can it be anything else?"
	if e.pinTried == nil {
		e.pinTried = map[*smt.Term]int{}
	}
	if e.pinTried[x] < 2 {
		e.pinTried[x]++
		if r := query([]*smt.Term{hyp}, []*smt.Term{x}); r.Status == "sat" {
			if m := pinValRe.FindStringSubmatch(r.Model); m != nil {
				var v uint64
				if m[1] != "" {
					v, _ = strconv.ParseUint(m[1], 16, 64)
				} else {
					v, _ = strconv.ParseUint(m[2], 2, 64)
				}
				k0 := smt.Const(k.S.W, v)
				if r2 := query([]*smt.Term{hyp, smt.Not(smt.Eq(x, k0))}, nil); r2.Status == "unsat" {
					e.pins = append(e.pins, pinRec{x, k0, flat()})
					if debugFold {
						fmt.Fprintf(os.Stderr, "value pinned by solver: %s := %s\n", x.Short(120), k0.Short(20))
					}
					return smt.BoolConst(k0.Val == k.Val)
				}
			}
		}
	}
	res := c
	if query([]*smt.Term{hyp, c}, nil).Status == "unsat" {
		res = smt.False
	} else if query([]*smt.Term{hyp, smt.Not(c)}, nil).Status == "unsat" {
		res = smt.True
	}
	if debugFold {
		fmt.Fprintf(os.Stderr, "branch decided by solver: %s => %s\n", c.Short(120), res.Short(10))
	}
	e.branchAns = append(e.branchAns, branchRec{c, res, flat()})
	return res
}

type pinRec struct {
	x, k *smt.Term
	hyp  []*smt.Term
}

type branchRec struct {
	c, res *smt.Term
	hyp    []*smt.Term
}

var pinValRe = regexp.MustCompile(`\(\(.* (?:#x([0-9a-fA-F]+)|#b([01]+))\)\)\s*$`)

// decideOn: the contract being verified asked for solver-decided branches (clause `decide-branches`).
func (e *Exec) decideOn() bool {
	return len(e.hstack) > 0 && e.hstack[0].con != nil && e.hstack[0].con.DecideBranches
}

var debugFold = os.Getenv("GOVC_DEBUG_FOLD") != ""
var debugFoldN int

func (e *Exec) execInstr(fr *frame, st *State, instr ssa.Instruction) {
	switch x := instr.(type) {
	case *ssa.Alloc:
		t := x.Type().Underlying().(*types.Pointer).Elem()
		if e.isCell(fr, x) {
			st.Cells[x] = e.W.Zero(t)
			if e.disc != nil {
				e.disc.cells[x] = true
			}
			return
		}
		p := e.newObj(st)
		e.zeroInit(st, p, t)
		fr.vals[x] = p
		if len(e.frames) == 2 && len(e.hstack) > 0 && e.hstack[0].con != nil && e.hstack[0].con.LocalsSurvive && !isAggregate(t) {
			// a local of the function under contract that lives in the heap only because a closure of the same
			// function captures it: callees have no pointer to it
			e.heapSort[cellKey(t)] = smt.Array(AddrS, e.W.SortOf(t))
			e.keepOnHavoc = append(e.keepOnHavoc, frameLoc{cellKey(t), p})
		}
	case *ssa.Store:
		if a, ok := x.Addr.(*ssa.Alloc); ok && e.isCell(fr, a) {
			st.Cells[a] = e.val(fr, st, x.Val)
			if e.disc != nil {
				e.disc.cells[a] = true
			}
			return
		}
		addr := e.val(fr, st, x.Addr)
		e.safety(st, "nil", smt.Neq(addr, NilAddr), x.Pos())
		e.store(st, addr, x.Val.Type(), e.val(fr, st, x.Val), x.Pos())
	case *ssa.UnOp:
		fr.vals[x] = e.unop(fr, st, x)
	case *ssa.BinOp:
		fr.vals[x] = e.binop(st, x.Op, e.val(fr, st, x.X), e.val(fr, st, x.Y), x.X.Type(), x.Y.Type(), x.Pos())
	case *ssa.Convert:
		fr.vals[x] = e.convert(st, e.val(fr, st, x.X), x.X.Type(), x.Type())
	case *ssa.ChangeType:
		fr.vals[x] = e.val(fr, st, x.X)
	case *ssa.ChangeInterface:
		fr.vals[x] = e.val(fr, st, x.X)
	case *ssa.MakeInterface:
		fr.vals[x] = e.makeIface(st, e.val(fr, st, x.X), x.X.Type())
	case *ssa.TypeAssert:
		fr.vals[x] = e.typeAssert(st, x, e.val(fr, st, x.X))
	case *ssa.FieldAddr:
		p := e.val(fr, st, x.X)
		e.safety(st, "nil", smt.Neq(p, NilAddr), x.Pos())
		st0 := x.X.Type().Underlying().(*types.Pointer).Elem()
		fr.vals[x] = Fld(p, e.W.FieldID(st0, x.Field))
	case *ssa.Field:
		fr.vals[x] = e.W.StructField(e.val(fr, st, x.X), x.X.Type(), x.Field)
	case *ssa.IndexAddr:
		fr.vals[x] = e.indexAddr(fr, st, x)
	case *ssa.Index:
		xv := e.val(fr, st, x.X)
		iv := toIndex(e.val(fr, st, x.Index), x.Index.Type())
		if isString(x.X.Type()) {
			e.safety(st, "bounds", smt.BVUlt(iv, e.strlen(st, xv)), x.Pos())
			fr.vals[x] = smt.App("strbyte", BV8, xv, iv)
			return
		}
		n := x.X.Type().Underlying().(*types.Array).Len()
		e.safety(st, "bounds", smt.BVUlt(iv, smt.Const(64, uint64(n))), x.Pos())
		fr.vals[x] = smt.Select(xv, iv)
	case *ssa.Slice:
		fr.vals[x] = e.sliceOp(fr, st, x)
	case *ssa.MakeSlice:
		et := x.Type().Underlying().(*types.Slice).Elem()
		ln := toIndex(e.val(fr, st, x.Len), x.Len.Type())
		cp := toIndex(e.val(fr, st, x.Cap), x.Cap.Type())
		// (sizes that only fail by exhausting memory are not modelled: the bound just keeps the
		// arithmetic on lengths away from 64-bit wrap-around)
		e.safety(st, "makeslice", smt.And(smt.BVUle(ln, cp), smt.BVUle(cp, smt.Const(64, 1<<56))), x.Pos())
		if e.allocBound != nil && e.spec == 0 && !cp.IsConst() {
			sz := uint64(stdSizes.Sizeof(et))
			if sz == 0 {
				sz = 1
			}
			// cp*sz cannot wrap: cp is first bounded by (2^64-1)/sz
			e.safety(st, "alloc", smt.And(smt.BVUle(cp, smt.Const(64, ^uint64(0)/sz)), smt.BVUle(smt.BVMul(cp, smt.Const(64, sz)), e.allocBound)), x.Pos())
		}
		fr.vals[x] = e.makeSlice(st, et, ln, cp)
	case *ssa.MakeMap:
		m := e.newObj(st)
		mt := x.Type().Underlying().(*types.Map)
		hk, hs, vk, vs := e.mapHeaps(mt)
		e.fstack = append(e.fstack, nil)
		e.writeHeap(st, smt.True, hk, hs, m, nil, smt.ConstArr(hs.Elem, smt.False), x.Pos())
		e.writeHeap(st, smt.True, vk, vs, m, nil, smt.ConstArr(vs.Elem, e.W.Zero(mt.Elem())), x.Pos())
		e.fstack = e.fstack[:len(e.fstack)-1]
		fr.vals[x] = m
	case *ssa.MakeChan:
		ch := e.newObj(st)
		hs := smt.Array(AddrS, smt.Bool)
		e.heapSort["GH|chanClosed"] = hs
		e.fstack = append(e.fstack, nil)
		e.writeHeap(st, smt.True, "GH|chanClosed", hs, ch, nil, smt.False, x.Pos())
		e.fstack = e.fstack[:len(e.fstack)-1]
		fr.vals[x] = ch
	case *ssa.MakeClosure:
		fn := x.Fn.(*ssa.Function)
		bs := make([]*smt.Term, len(x.Bindings))
		for i, b := range x.Bindings {
			bs[i] = e.val(fr, st, b)
		}
		fr.vals[x] = smt.Closure(fn, fmt.Sprintf("%s", fn.String()), FuncS, bs...)
	case *ssa.Lookup:
		fr.vals[x] = e.lookup(fr, st, x)
	case *ssa.MapUpdate:
		e.mapUpdate(fr, st, x)
	case *ssa.Range:
		if _, ok := x.X.Type().Underlying().(*types.Map); ok {
			fr.vals[x] = e.val(fr, st, x.X)
		} else {
			unsupported("range over string")
		}
	case *ssa.Next:
		fr.vals[x] = e.next(fr, st, x)
	case *ssa.Extract:
		t := e.val(fr, st, x.Tuple)
		if t.Op != "tuple" {
			unsupported("extract from non-tuple %s", t.Op)
		}
		fr.vals[x] = t.Args[x.Index]
	case *ssa.Call:
		res := e.callCommon(fr, st, &x.Call, x, nil)
		if res != nil {
			fr.vals[x] = res
		}
	case *ssa.Defer:
		rec := &deferRec{On: smt.True}
		for _, a := range x.Call.Args {
			rec.Args = append(rec.Args, e.val(fr, st, a))
		}
		if x.Call.StaticCallee() == nil || x.Call.IsInvoke() {
			rec.Fn = e.val(fr, st, x.Call.Value)
		}
		if st.Defer == nil {
			st.Defer = map[*ssa.Defer]*deferRec{}
		}
		st.Defer[x] = rec
		found := false
		for _, d := range fr.defers {
			if d == x {
				found = true
			}
		}
		if !found {
			fr.defers = append(fr.defers, x)
		}
	case *ssa.Go:
		unsupported("go statement in %s", fr.fn)
	case *ssa.Select:
		// Receive-only select over channels that carry no messages (ASSUMED: they are only ever
		// closed): a case is ready iff its channel is closed (ghost flag "chanClosed"). Any ready
		// case may be chosen; a blocking select proceeds only once some case is ready.
		hs := smt.Array(AddrS, smt.Bool)
		e.heapSort["GH|chanClosed"] = hs
		h := e.heap(st, "GH|chanClosed", hs)
		idx := e.fresh("select", BV64)
		var anyReady, pick []*smt.Term
		vals := []*smt.Term{idx, smt.False}
		for i, sst := range x.States {
			if sst.Dir != types.RecvOnly {
				unsupported("send case in select in %s", fr.fn)
			}
			ch := e.val(fr, st, sst.Chan)
			ready := smt.And(smt.Neq(ch, NilAddr), smt.Select(h, ch))
			anyReady = append(anyReady, ready)
			pick = append(pick, smt.And(smt.Eq(idx, smt.Const(64, uint64(i))), ready))
			vals = append(vals, e.W.Zero(sst.Chan.Type().Underlying().(*types.Chan).Elem()))
		}
		if x.Blocking {
			st.Assume(smt.Or(pick...))
		} else {
			st.Assume(smt.Or(append(pick, smt.And(smt.Eq(idx, smt.Const(64, ^uint64(0))), smt.Not(smt.Or(anyReady...))))...))
		}
		e.W.Note("assumed: channels in select statements carry no messages (ready iff closed)")
		fr.vals[x] = smt.TupleOf(vals...)
	case *ssa.Send:
		unsupported("channel operation in %s", fr.fn)
	case *ssa.SliceToArrayPointer:
		s := e.val(fr, st, x.X)
		n := x.Type().Underlying().(*types.Pointer).Elem().Underlying().(*types.Array).Len()
		e.safety(st, "bounds", smt.BVUle(smt.Const(64, uint64(n)), SLen(s)), x.Pos())
		if n == 0 {
			fr.vals[x] = SArr(s)
		} else {
			unsupported("slice to array pointer with offset")
		}
	default:
		unsupported("instruction %T in %s", instr, fr.fn)
	}
}

func (e *Exec) unop(fr *frame, st *State, x *ssa.UnOp) *smt.Term {
	switch x.Op {
	case token.MUL:
		if a, ok := x.X.(*ssa.Alloc); ok && e.isCell(fr, a) {
			if v, ok := st.Cells[a]; ok {
				return v
			}
			return e.W.Zero(x.Type())
		}
		if g, ok := x.X.(*ssa.Global); ok {
			if cv := e.W.ConstGlobal(g); cv != nil {
				return e.val(fr, st, cv)
			}
		}
		addr := e.val(fr, st, x.X)
		e.safety(st, "nil", smt.Neq(addr, NilAddr), x.Pos())
		v := e.load(st, addr, x.Type())
		if g, ok := x.X.(*ssa.Global); ok && v.S == IfaceS && e.W.NonNilGlobal(g) {
			e.fact(st, v, smt.Neq(ITyp(v), smt.Const(32, 0)))
		}
		return v
	case token.NOT:
		return smt.Not(e.val(fr, st, x.X))
	case token.SUB:
		v := e.val(fr, st, x.X)
		if isFloat(x.Type()) {
			w := v.S.W
			return smt.BVXor(v, smt.Const(w, 1<<uint(w-1)))
		}
		return smt.BVNeg(v)
	case token.XOR:
		return smt.BVNot(e.val(fr, st, x.X))
	case token.ARROW:
		unsupported("channel receive in %s", fr.fn)
	}
	unsupported("unop %s", x.Op)
	return nil
}

func (e *Exec) binop(st *State, op token.Token, a, b *smt.Term, ta, tb types.Type, pos token.Pos) *smt.Term {
	if isFloat(ta) {
		return e.floatBinop(st, op, a, b, ta)
	}
	if w, signed, ok := intInfo(ta); ok {
		switch op {
		case token.ADD:
			return smt.BVAdd(a, b)
		case token.SUB:
			return smt.BVSub(a, b)
		case token.MUL:
			return smt.BVMul(a, b)
		case token.QUO:
			e.safety(st, "div0", smt.Neq(b, smt.Const(w, 0)), pos)
			if signed {
				return smt.BVSDiv(a, b)
			}
			return smt.BVUDiv(a, b)
		case token.REM:
			e.safety(st, "div0", smt.Neq(b, smt.Const(w, 0)), pos)
			if signed {
				return smt.BVSRem(a, b)
			}
			return smt.BVURem(a, b)
		case token.AND:
			return smt.BVAnd(a, b)
		case token.OR:
			return smt.BVOr(a, b)
		case token.XOR:
			return smt.BVXor(a, b)
		case token.AND_NOT:
			return smt.BVAnd(a, smt.BVNot(b))
		case token.SHL, token.SHR:
			wb, sb, _ := intInfo(tb)
			if sb {
				e.safety(st, "shift", smt.BVSle(smt.Const(wb, 0), b), pos)
			}
			// bring the count to width w, saturating
			var cnt *smt.Term
			var big *smt.Term // count >= w
			big = smt.BVUle(smt.Const(wb, uint64(w)), b)
			if wb >= w {
				cnt = smt.Extract(b, w-1, 0)
			} else {
				cnt = smt.ZeroExt(b, w)
			}
			if op == token.SHL {
				return smt.Ite(big, smt.Const(w, 0), smt.BVShl(a, cnt))
			}
			if signed {
				return smt.Ite(big, smt.BVAshr(a, smt.Const(w, uint64(w-1))), smt.BVAshr(a, cnt))
			}
			return smt.Ite(big, smt.Const(w, 0), smt.BVLshr(a, cnt))
		case token.EQL:
			return smt.Eq(a, b)
		case token.NEQ:
			return smt.Neq(a, b)
		case token.LSS:
			if signed {
				return smt.BVSlt(a, b)
			}
			return smt.BVUlt(a, b)
		case token.LEQ:
			if signed {
				return smt.BVSle(a, b)
			}
			return smt.BVUle(a, b)
		case token.GTR:
			if signed {
				return smt.BVSlt(b, a)
			}
			return smt.BVUlt(b, a)
		case token.GEQ:
			if signed {
				return smt.BVSle(b, a)
			}
			return smt.BVUle(b, a)
		}
		unsupported("int binop %s", op)
	}
	if isString(ta) {
		switch op {
		case token.ADD:
			if a == EmptyStr {
				return b
			}
			if b == EmptyStr {
				return a
			}
			if a.Op == "strlit" && b.Op == "strlit" {
				return smt.StrLit(StrS, a.Name+b.Name)
			}
			r := smt.App("strcat", StrS, a, b)
			e.Axiom(smt.Eq(e.strlen(st, r), smt.BVAdd(e.strlen(st, a), e.strlen(st, b))))
			return r
		case token.EQL:
			return smt.Eq(a, b)
		case token.NEQ:
			return smt.Neq(a, b)
		case token.LSS:
			return smt.App("strlt", smt.Bool, a, b)
		case token.GTR:
			return smt.App("strlt", smt.Bool, b, a)
		case token.LEQ:
			return smt.Not(smt.App("strlt", smt.Bool, b, a))
		case token.GEQ:
			return smt.Not(smt.App("strlt", smt.Bool, a, b))
		}
	}
	switch op {
	case token.EQL:
		return e.equal(st, a, b, ta, tb)
	case token.NEQ:
		return smt.Not(e.equal(st, a, b, ta, tb))
	}
	if a.S == smt.Bool {
		switch op {
		case token.AND, token.LAND:
			return smt.And(a, b)
		case token.OR, token.LOR:
			return smt.Or(a, b)
		}
	}
	unsupported("binop %s on %s", op, ta)
	return nil
}

func (e *Exec) equal(st *State, a, b *smt.Term, ta, tb types.Type) *smt.Term {
	// interface compared with a concrete value: wrap
	_, ia := ta.Underlying().(*types.Interface)
	_, ib := tb.Underlying().(*types.Interface)
	if ia && !ib {
		b = e.makeIface(st, b, tb)
	} else if ib && !ia {
		a = e.makeIface(st, a, ta)
	}
	if a.S.Kind == smt.KArray {
		unsupported("array comparison")
	}
	if a.S == IfaceS {
		if a == NilIface {
			return smt.Eq(ITyp(b), smt.Const(32, 0))
		}
		if b == NilIface {
			return smt.Eq(ITyp(a), smt.Const(32, 0))
		}
	}
	if _, ok := ta.Underlying().(*types.Slice); ok {
		// slices are only comparable with nil
		if a == NilSlice {
			return smt.Eq(SArr(b), NilAddr)
		}
		return smt.Eq(SArr(a), NilAddr)
	}
	return smt.Eq(a, b)
}

func (e *Exec) convert(st *State, v *smt.Term, from, to types.Type) *smt.Term {
	wf, sf, okf := intInfo(from)
	wt, st2, okt := intInfo(to)
	_ = st2
	switch {
	case okf && okt:
		if wt <= wf {
			return smt.Extract(v, wt-1, 0)
		}
		if sf {
			return smt.SignExt(v, wt)
		}
		return smt.ZeroExt(v, wt)
	case isFloat(from) || isFloat(to):
		return e.floatConvert(st, v, from, to)
	}
	// pointer <-> unsafe.Pointer
	if e.W.SortOf(from) == AddrS && e.W.SortOf(to) == AddrS {
		return v
	}
	if isString(to) {
		if _, ok := from.Underlying().(*types.Slice); ok {
			r := smt.App("str.of.bytes", StrS, SArr(v), SOff(v), SLen(v), e.elemsOf(st, from.Underlying().(*types.Slice).Elem(), SArr(v)))
			st.Assume(smt.Eq(e.strlen(st, r), SLen(v)))
			return r
		}
		if okf {
			return smt.App("str.of.rune", StrS, smt.ZeroExt(v, 64))
		}
	}
	if isString(from) {
		if sl, ok := to.Underlying().(*types.Slice); ok {
			// fresh array holding the string bytes
			n := e.strlen(st, v)
			arr := e.newObj(st)
			content := smt.App("str.bytes", smt.Array(BV64, e.W.SortOf(sl.Elem())), v)
			key := elemKey(sl.Elem())
			hs := smt.Array(AddrS, smt.Array(BV64, e.W.SortOf(sl.Elem())))
			e.fstack = append(e.fstack, nil)
			e.writeHeap(st, smt.True, key, hs, arr, nil, content, token.NoPos)
			e.fstack = e.fstack[:len(e.fstack)-1]
			return MkSlice(arr, smt.Const(64, 0), n, n)
		}
	}
	if okt && e.W.SortOf(from) == AddrS {
		// pointer -> uintptr: the numeric address is an uninterpreted but deterministic function of the
		// pointer (the collector does not move objects; nil is 0)
		w := e.W.SortOf(to).W
		return smt.Ite(smt.Eq(v, NilAddr), smt.Const(w, 0), smt.App(fmt.Sprintf("ptr2int%d", w), smt.BV(w), v))
	}
	if okf && e.W.SortOf(to) == AddrS {
		e.W.Note("unsafe uintptr->pointer conversion havocked")
		e.approx++
		return e.fresh("unsafe", e.W.SortOf(to))
	}
	unsupported("conversion %s -> %s", from, to)
	return nil
}

func (e *Exec) elemsOf(st *State, et types.Type, arr *smt.Term) *smt.Term {
	hs := smt.Array(AddrS, smt.Array(BV64, e.W.SortOf(et)))
	return smt.Select(e.heap(st, elemKey(et), hs), arr)
}

func pointerLike(t types.Type) bool {
	switch u := t.Underlying().(type) {
	case *types.Pointer, *types.Map, *types.Chan:
		return true
	case *types.Basic:
		return u.Kind() == types.UnsafePointer
	}
	return false
}

func (e *Exec) makeIface(st *State, v *smt.Term, t types.Type) *smt.Term {
	if _, ok := t.Underlying().(*types.Interface); ok {
		return v
	}
	tid := smt.Const(32, uint64(e.W.TypeID(t)))
	if b, ok := t.Underlying().(*types.Basic); ok && b.Kind() == types.UntypedNil {
		return NilIface
	}
	if pointerLike(t) {
		return MkIface(tid, v)
	}
	s := e.W.SortOf(t)
	if s.Kind == smt.KTuple {
		unsupported("tuple in interface")
	}
	box := smt.App("box|"+typeName(t), AddrS, v)
	e.Axiom(smt.Eq(smt.App("unbox|"+typeName(t), s, box), v))
	e.Axiom(smt.Not(smt.Is("obj", box)))
	return MkIface(tid, box)
}

func (e *Exec) ifacePayload(v *smt.Term, t types.Type) *smt.Term {
	if pointerLike(t) {
		return IVal(v)
	}
	return smt.App("unbox|"+typeName(t), e.W.SortOf(t), IVal(v))
}

func (e *Exec) typeAssert(st *State, x *ssa.TypeAssert, v *smt.Term) *smt.Term {
	var ok, res *smt.Term
	if _, isI := x.AssertedType.Underlying().(*types.Interface); isI {
		// interface-to-interface: decide statically when the dynamic type is known
		res = v
		e.curAssertStaticT = x.X.Type()
		e.curAssertStatic = x.X.Type().Underlying()
		ok = e.implements(st, v, x.AssertedType)
		e.curAssertStatic, e.curAssertStaticT = nil, nil
	} else {
		tid := smt.Const(32, uint64(e.W.TypeID(x.AssertedType)))
		ok = smt.Eq(ITyp(v), tid)
		res = e.ifacePayload(v, x.AssertedType)
	}
	if x.CommaOk {
		return smt.TupleOf(smt.Ite(ok, res, e.W.Zero(x.AssertedType)), ok)
	}
	e.safety(st, "typeassert", ok, x.Pos())
	return res
}

func (e *Exec) implements(st *State, v *smt.Term, it types.Type) *smt.Term {
	ty := ITyp(v)
	iface := it.Underlying().(*types.Interface)
	if st0, ok := e.curAssertStatic.(*types.Interface); ok && st0 != nil && types.Implements(e.curAssertStaticT, iface) {
		// asserting an interface value to an interface its static type already satisfies: a nil check
		return smt.Neq(ty, smt.Const(32, 0))
	}
	if ty.IsConst() {
		if ty.Val == 0 {
			return smt.False
		}
		return smt.BoolConst(types.Implements(e.W.typeByID[ty.Val], iface))
	}
	if iface.NumMethods() == 0 {
		return smt.Neq(ty, smt.Const(32, 0))
	}
	r := smt.App("implements|"+typeName(it), smt.Bool, ty)
	e.Axiom(smt.Implies(r, smt.Neq(ty, smt.Const(32, 0))))
	return r
}

func (e *Exec) indexAddr(fr *frame, st *State, x *ssa.IndexAddr) *smt.Term {
	xv := e.val(fr, st, x.X)
	iv := toIndex(e.val(fr, st, x.Index), x.Index.Type())
	switch u := x.X.Type().Underlying().(type) {
	case *types.Slice:
		e.safety(st, "bounds", smt.BVUlt(iv, SLen(xv)), x.Pos())
		return Elm(SArr(xv), smt.BVAdd(SOff(xv), iv))
	case *types.Pointer:
		n := u.Elem().Underlying().(*types.Array).Len()
		e.safety(st, "nil", smt.Neq(xv, NilAddr), x.Pos())
		e.safety(st, "bounds", smt.BVUlt(iv, smt.Const(64, uint64(n))), x.Pos())
		return Elm(xv, iv)
	}
	unsupported("indexaddr on %s", x.X.Type())
	return nil
}

func (e *Exec) sliceOp(fr *frame, st *State, x *ssa.Slice) *smt.Term {
	xv := e.val(fr, st, x.X)
	get := func(v ssa.Value) *smt.Term {
		if v == nil {
			return nil
		}
		return toIndex(e.val(fr, st, v), v.Type())
	}
	lo, hi, mx := get(x.Low), get(x.High), get(x.Max)
	zero := smt.Const(64, 0)
	if lo == nil {
		lo = zero
	}
	switch u := x.X.Type().Underlying().(type) {
	case *types.Slice:
		if hi == nil {
			hi = SLen(xv)
		}
		cp := SCap(xv)
		if mx == nil {
			mx = cp
		}
		// 0 <= lo <= hi <= max <= cap  (unsigned compare covers negatives)
		e.safety(st, "bounds", smt.And(smt.BVUle(lo, hi), smt.BVUle(hi, mx), smt.BVUle(mx, cp)), x.Pos())
		return MkSlice(SArr(xv), smt.BVAdd(SOff(xv), lo), smt.BVSub(hi, lo), smt.BVSub(mx, lo))
	case *types.Basic: // string
		n := e.strlen(st, xv)
		if hi == nil {
			hi = n
		}
		e.safety(st, "bounds", smt.And(smt.BVUle(lo, hi), smt.BVUle(hi, n)), x.Pos())
		if lo == zero && hi == n {
			return xv
		}
		r := smt.App("substr", StrS, xv, lo, hi)
		st.Assume(smt.Eq(e.strlen(st, r), smt.BVSub(hi, lo)))
		return r
	case *types.Pointer:
		n := smt.Const(64, uint64(u.Elem().Underlying().(*types.Array).Len()))
		e.safety(st, "nil", smt.Neq(xv, NilAddr), x.Pos())
		if hi == nil {
			hi = n
		}
		if mx == nil {
			mx = n
		}
		e.safety(st, "bounds", smt.And(smt.BVUle(lo, hi), smt.BVUle(hi, mx), smt.BVUle(mx, n)), x.Pos())
		return MkSlice(xv, lo, smt.BVSub(hi, lo), smt.BVSub(mx, lo))
	}
	unsupported("slice of %s", x.X.Type())
	return nil
}

// makeSlice allocates a zeroed backing array.
func (e *Exec) makeSlice(st *State, et types.Type, ln, cp *smt.Term) *smt.Term {
	arr := e.newObj(st)
	e.fstack = append(e.fstack, nil)
	defer func() { e.fstack = e.fstack[:len(e.fstack)-1] }()
	if !isAggregate(et) {
		key := elemKey(et)
		s := e.W.SortOf(et)
		hs := smt.Array(AddrS, smt.Array(BV64, s))
		e.writeHeap(st, smt.True, key, hs, arr, nil, smt.ConstArr(hs.Elem, e.W.Zero(et)), token.NoPos)
	} else {
		e.zeroAggElems(st, arr, et, cp)
	}
	return MkSlice(arr, smt.Const(64, 0), ln, cp)
}

// zeroAggElems: forall i: fields of elm(arr,i) are zero (quantified assumption).
func (e *Exec) zeroAggElems(st *State, arr *smt.Term, et types.Type, n *smt.Term) {
	if n.IsConst() && n.Val <= 8 {
		for i := uint64(0); i < n.Val; i++ {
			e.store(st, Elm(arr, smt.Const(64, i)), et, e.W.Zero(et), token.NoPos)
		}
		return
	}
	e.boundCtr++
	i := smt.BoundVar(fmt.Sprintf("zi!%d", e.boundCtr), BV64)
	e.inQuant++
	tmp := st.Clone()
	v := e.load(tmp, Elm(arr, i), et)
	e.inQuant--
	e.Axiom(smt.Forall([]*smt.Term{i}, smt.Eq(v, e.W.Zero(et))))
}

var stdSizes = types.SizesFor("gc", "amd64")

func f32bits(f float32) uint32 { return mathFloat32bits(f) }
func f64bits(f float64) uint64 { return mathFloat64bits(f) }

func shortFn(fn *ssa.Function) string {
	s := fn.String()
	s = strings.ReplaceAll(s, ModulePath+"/internal/", "")
	s = strings.ReplaceAll(s, ModulePath+"/", "")
	s = strings.ReplaceAll(s, ModulePath, "wazero")
	return s
}
