package engine

import (
	"fmt"
	"strings"
	"go/token"
	"go/types"

	"govc/smt"

	"golang.org/x/tools/go/ssa"
)

type State struct {
	Reach *smt.Term
	Path  *smt.Term // branch conditions only (selectors for merged values)
	Heaps map[string]*smt.Term
	Cells map[*ssa.Alloc]*smt.Term
	Over  map[ssa.Value]*smt.Term
	Alloc *smt.Term
	Defer map[*ssa.Defer]*deferRec
	Ghost map[string]*smt.Term
	Splits []*smt.Term // atoms of the branch conditions whose branches were merged into this state
	Epoch int // >0: some heap havoc happened; unseen heaps are not the entry heaps
	OldCur   *State    // old()-evaluation: cells allocated after OldAlloc are read from this (current) state
	OldAlloc *smt.Term
}

type deferRec struct {
	On   *smt.Term
	Args []*smt.Term
	Fn   *smt.Term // function value for non-static
	Recv *smt.Term
}

func (s *State) Clone() *State {
	n := &State{Reach: s.Reach, Path: s.Path, Splits: s.Splits, Alloc: s.Alloc, Epoch: s.Epoch, OldCur: s.OldCur, OldAlloc: s.OldAlloc,
		Heaps: make(map[string]*smt.Term, len(s.Heaps)),
		Cells: make(map[*ssa.Alloc]*smt.Term, len(s.Cells)),
		Ghost: make(map[string]*smt.Term, len(s.Ghost))}
	for k, v := range s.Heaps {
		n.Heaps[k] = v
	}
	for k, v := range s.Cells {
		n.Cells[k] = v
	}
	for k, v := range s.Ghost {
		n.Ghost[k] = v
	}
	if len(s.Over) > 0 {
		n.Over = make(map[ssa.Value]*smt.Term, len(s.Over))
		for k, v := range s.Over {
			n.Over[k] = v
		}
	}
	if len(s.Defer) > 0 {
		n.Defer = make(map[*ssa.Defer]*deferRec, len(s.Defer))
		for k, v := range s.Defer {
			n.Defer[k] = v
		}
	}
	return n
}

func (s *State) Assume(c *smt.Term) {
	if c.HasBound {
		return
	}
	s.Reach = smt.And(s.Reach, c)
}

func (s *State) Dead() bool { return s.Reach.IsFalse() }

// Branch restricts the state to the executions where c holds (a control-flow decision).
func (s *State) Branch(c *smt.Term) {
	s.Reach = smt.And(s.Reach, c)
	s.Path = smt.And(s.Path, c)
}

type ObKind string

type Obligation struct {
	NoRetry bool // an obligation listed as a known finding: one attempt, no case-split / long second chance
	Name   string
	Kind   string
	Func   string
	Pos    string
	Text   string
	Hyp    *smt.Term
	Goal   *smt.Term
	Vacuity bool // must be SAT
	Values []*smt.Term
	ValueNames []string
	Props  []string
	Splits []*smt.Term // branch atoms merged into the state (case-split candidates for a hard query)
	Approx bool        // generated after an over-approximation: a model need not be a real execution
}

type modset struct {
	minSeq int
	startID int                    // terms with smaller ids existed before the loop was analysed
	addrs  map[string][]*smt.Term  // loop-invariant addresses written, per heap
	heaps map[string]bool          // heaps written at some loop-variant (or unknown) address
	cells map[*ssa.Alloc]bool
	ghost map[string]bool
	all   bool
	alloc bool
}

func newModset() *modset {
	return &modset{addrs: map[string][]*smt.Term{}, heaps: map[string]bool{}, cells: map[*ssa.Alloc]bool{}, ghost: map[string]bool{}}
}

func (m *modset) size() int {
	n := len(m.heaps) + len(m.cells) + len(m.ghost)
	for _, a := range m.addrs {
		n += len(a)
	}
	if m.all {
		n += 1000000
	}
	return n
}

type pendingGhostCheck struct {
	key string
	old *smt.Term
}

type frameLoc struct {
	key  string
	addr *smt.Term // object/array/map address
}

// element (struct) type of the backing array of a frame location with key "@elems", by address term
var elemsType = map[*smt.Term]types.Type{}

// frameSpec: active modifies clause while verifying a target body.
type frameSpec struct {
	deny      []frameLoc // preserved locations (checked even when all is set)
	locs      []frameLoc
	all       bool
	snapAlloc *smt.Term
	owner     string
}

// harness context
type hctx struct {
	con      *Contract
	apply    bool // else verify
	atTarget bool
	snap     *State
	frame    *frameSpec
	hasMod   bool
	mayPanic []*smt.Term
	pendingGhost []pendingGhostCheck
	retPaths []*smt.Term
	calleeKeep []frameLoc
	allocBound *smt.Term
	callPos  token.Pos
	callerFn string
}

type frame struct {
	fn        *ssa.Function
	vals      map[ssa.Value]*smt.Term
	entrySnap *State
	con       *Contract // contract whose loop specs apply
	rets      []retRec
	loops     map[*ssa.BasicBlock]*loopInfo
	defers    []*ssa.Defer
	bindings  []*smt.Term
	cellOK    map[*ssa.Alloc]bool
	curCallArg0 ssa.Value
}

type retRec struct {
	st  *State
	res *smt.Term
}

type loopInfo struct {
	header *ssa.BasicBlock
	blocks map[*ssa.BasicBlock]bool
	order  []*ssa.BasicBlock
	n      int
}

type Exec struct {
	W        *World
	Obls     []*Obligation
	spec     int
	mute     int
	inQuant  int
	disc     *modset
	frames   []*frame
	hstack   []*hctx
	fstack   []*frameSpec
	alloc0   *smt.Term
	initHeap map[string]*smt.Term
	heapSort map[string]*smt.Sort
	curFunc  string
	curProps []string
	inlPath  []string
	counters map[string]int
	inputs   []*smt.Term
	inputNames []string
	MaxInline int
	boundCtr int
	mayPanic []*smt.Term // active may-panic conditions (verify mode)
	panicOK  bool
	Abstracted map[string]bool
	axioms   []*smt.Term
	axSeen   map[int]bool
	epochCtr int
	vacuityOn bool
	lemmaMode bool
	objSeq map[int]int
	specObj map[int]bool
	curAssertStatic types.Type
	curAssertStaticT types.Type
	keepOnHavoc []frameLoc
	allocBound *smt.Term
	lastRetPaths []*smt.Term
	ghostNames map[string]bool
	branchAns     []branchRec
	pins          []pinRec
	branchDir     string
	branchQueries int
	pinTried      map[*smt.Term]int
	partial       map[*smt.Term]partialRec // partially forgotten field heaps (elems() of a struct slice)
	pendingGhost []pendingGhostCheck
	allocSeq int
	noSafety int
	recoverNondet bool
	approx   int // over-approximation events so far (havoc of unknown effects, loop summaries, unconstrained results)
	facts    map[*smt.Term]*smt.Term
	foldMemo map[*smt.Term]*smt.Term
	keepPre  bool
	lastResult *smt.Term
}

func NewExec(w *World) *Exec {
	e := newExec0(w)
	e.ghostNames = map[string]bool{}
	for k := range GhostNamesSeen {
		e.ghostNames[k] = true
	}
	return e
}

func newExec0(w *World) *Exec {
	e := &Exec{W: w, initHeap: map[string]*smt.Term{}, heapSort: map[string]*smt.Sort{}, counters: map[string]int{},
		MaxInline: 6, Abstracted: map[string]bool{}}
	e.alloc0 = smt.Var("alloc0", BV64)
	return e
}

// Axiom records a globally valid fact (an instance of a type/heap well-formedness axiom, or a
// constraint that only restricts a fresh symbol). Kept outside the path condition so that
// branch conditions of pure code collapse again at joins.
func (e *Exec) Axiom(t *smt.Term) {
	if t.IsTrue() || t.HasBound {
		return
	}
	if e.axSeen == nil {
		e.axSeen = map[int]bool{}
	}
	if e.axSeen[t.ID] {
		return
	}
	e.axSeen[t.ID] = true
	e.axioms = append(e.axioms, t)
}

// opaque: a read from an unconstrained heap / fresh symbol, for which WF facts are axioms.
func opaque(v *smt.Term) bool {
	switch v.Op {
	case "var", "app":
		return true
	case "select", "sel":
		return opaque(v.Args[0])
	}
	return false
}

func (e *Exec) fact(st *State, v *smt.Term, t *smt.Term) {
	if opaque(v) {
		e.Axiom(t)
	} else {
		st.Assume(t)
	}
}

func (e *Exec) NewState() *State {
	st := &State{Reach: smt.True, Path: smt.True, Heaps: map[string]*smt.Term{}, Cells: map[*ssa.Alloc]*smt.Term{}, Ghost: map[string]*smt.Term{}, Alloc: e.alloc0}
	e.Axiom(smt.BVUle(smt.Const(64, 4096), e.alloc0))
	e.Axiom(smt.BVUle(e.alloc0, smt.Const(64, 1<<60)))
	return st
}

func (e *Exec) heapInit(key string, s *smt.Sort) *smt.Term {
	if t, ok := e.initHeap[key]; ok {
		return t
	}
	t := smt.Var("H0|"+key, s)
	e.initHeap[key] = t
	e.heapSort[key] = s
	return t
}

func (e *Exec) heap(st *State, key string, s *smt.Sort) *smt.Term {
	if t, ok := st.Heaps[key]; ok {
		return t
	}
	if st.Epoch == 0 {
		return e.heapInit(key, s)
	}
	e.heapSort[key] = s
	return smt.Var(fmt.Sprintf("H@%d|%s", st.Epoch, key), s)
}

func (e *Exec) newEpoch() int { e.epochCtr++; return e.epochCtr }

func (e *Exec) setHeap(st *State, key string, t *smt.Term, addr *smt.Term) {
	if e.disc != nil && !e.loopFresh(addr) {
		if addr != nil && addr.ID < e.disc.startID && e.disc.startID > 0 {
			found := false
			for _, x := range e.disc.addrs[key] {
				if x == addr {
					found = true
				}
			}
			if !found {
				e.disc.addrs[key] = append(e.disc.addrs[key], addr)
			}
		} else {
			e.disc.heaps[key] = true
		}
	}
	e.heapSort[key] = t.S
	st.Heaps[key] = t
}

// loopFresh: the address belongs to an object allocated (by this executor) after the loop
// being analysed was entered; writes to such objects need no havoc of pre-existing state.
func (e *Exec) loopFresh(a *smt.Term) bool {
	if a == nil || e.disc == nil {
		return false
	}
	for a.Op == "ctor" && (a.Name == "fld" || a.Name == "elm") {
		a = a.Args[0]
	}
	if a.Op == "ctor" && a.Name == "obj" {
		if seq, ok := e.objSeq[a.ID]; ok && seq > e.disc.minSeq {
			return true
		}
	}
	return false
}

func (e *Exec) fieldHeapSort(fid int) *smt.Sort {
	return smt.Array(AddrS, e.W.SortOf(e.W.fieldInfo[fid].typ))
}

// merge combines states with mutually exclusive reach conditions.
func (e *Exec) merge(ss []*State) *State {
	var live []*State
	for _, s := range ss {
		if s != nil && !s.Dead() {
			live = append(live, s)
		}
	}
	if len(live) == 0 {
		st := e.NewState()
		st.Reach = smt.False
		return st
	}
	if len(live) == 1 {
		return live[0].Clone()
	}
	out := live[0].Clone()
	rs := make([]*smt.Term, len(live))
	for i, s := range live {
		rs[i] = s.Reach
	}
	out.Reach = smt.Or(rs...)
	ps := make([]*smt.Term, len(live))
	for i, s := range live {
		ps[i] = s.Path
	}
	out.Path = smt.Or(ps...)
	// selector conditions: branch conditions only, common prefix stripped
	conds := stripCommon(ps)
	{
		seen := map[int]bool{}
		var sp []*smt.Term
		add := func(t *smt.Term) {
			if t.Op == "not" {
				t = t.Args[0]
			}
			if t.Op == "true" || t.Op == "false" || seen[t.ID] || t.HasBound {
				return
			}
			seen[t.ID] = true
			sp = append(sp, t)
		}
		for _, s := range live {
			for _, t := range s.Splits {
				add(t)
			}
		}
		if e.spec == 0 {
			for _, c := range conds {
				if c.Op == "and" {
					for _, a := range c.Args {
						add(a)
					}
				} else {
					add(c)
				}
			}
		}
		out.Splits = sp
	}
	pick := func(get func(s *State) *smt.Term) *smt.Term {
		v := get(live[len(live)-1])
		for i := len(live) - 2; i >= 0; i-- {
			x := get(live[i])
			if x != v {
				v = smt.Ite(conds[i], x, v)
			}
		}
		return v
	}
	// heaps
	keys := map[string]bool{}
	sameEpoch := true
	for _, s := range live {
		for k := range s.Heaps {
			keys[k] = true
		}
		if s.Epoch != live[0].Epoch {
			sameEpoch = false
		}
	}
	if !sameEpoch {
		for k := range e.heapSort {
			keys[k] = true
		}
	}
	for k := range keys {
		k := k
		out.Heaps[k] = pick(func(s *State) *smt.Term {
			return e.heap(s, k, e.heapSort[k])
		})
	}
	for _, s := range live {
		if s.Epoch != out.Epoch {
			out.Epoch = e.newEpoch()
			break
		}
	}
	cells := map[*ssa.Alloc]bool{}
	for _, s := range live {
		for k := range s.Cells {
			cells[k] = true
		}
	}
	for k := range cells {
		k := k
		// a cell missing in one predecessor is dead there (not yet allocated on that path)
		var def *smt.Term
		for _, s := range live {
			if t, ok := s.Cells[k]; ok {
				def = t
				break
			}
		}
		out.Cells[k] = pick(func(s *State) *smt.Term {
			if t, ok := s.Cells[k]; ok {
				return t
			}
			return def
		})
	}
	gk := map[string]bool{}
	for _, s := range live {
		for k := range s.Ghost {
			gk[k] = true
		}
	}
	for k := range gk {
		k := k
		var def *smt.Term
		for _, s := range live {
			if t, ok := s.Ghost[k]; ok {
				def = t
				break
			}
		}
		out.Ghost[k] = pick(func(s *State) *smt.Term {
			if t, ok := s.Ghost[k]; ok {
				return t
			}
			if strings.HasPrefix(k, "G|") {
				return smt.Var("g0|"+k[2:], ghostSort(k[2:]))
			}
			return def
		})
	}
	out.Alloc = pick(func(s *State) *smt.Term { return s.Alloc })
	// overrides
	ov := map[ssa.Value]bool{}
	for _, s := range live {
		for k := range s.Over {
			ov[k] = true
		}
	}
	if len(ov) > 0 {
		out.Over = map[ssa.Value]*smt.Term{}
		for k := range ov {
			k := k
			var def *smt.Term
			for _, s := range live {
				if t, ok := s.Over[k]; ok {
					def = t
					break
				}
			}
			out.Over[k] = pick(func(s *State) *smt.Term {
				if t, ok := s.Over[k]; ok {
					return t
				}
				return def
			})
		}
	}
	// defers
	dk := map[*ssa.Defer]bool{}
	for _, s := range live {
		for k := range s.Defer {
			dk[k] = true
		}
	}
	if len(dk) > 0 {
		out.Defer = map[*ssa.Defer]*deferRec{}
		for k := range dk {
			k := k
			var def *deferRec
			for _, s := range live {
				if t, ok := s.Defer[k]; ok {
					def = t
					break
				}
			}
			nr := &deferRec{}
			nr.On = pick(func(s *State) *smt.Term {
				if t, ok := s.Defer[k]; ok {
					return t.On
				}
				return smt.False
			})
			nr.Args = make([]*smt.Term, len(def.Args))
			for i := range def.Args {
				i := i
				nr.Args[i] = pick(func(s *State) *smt.Term {
					if t, ok := s.Defer[k]; ok {
						return t.Args[i]
					}
					return def.Args[i]
				})
			}
			if def.Fn != nil {
				nr.Fn = pick(func(s *State) *smt.Term {
					if t, ok := s.Defer[k]; ok {
						return t.Fn
					}
					return def.Fn
				})
			}
			out.Defer[k] = nr
		}
	}
	return out
}

func stripCommon(rs []*smt.Term) []*smt.Term {
	conj := func(t *smt.Term) []*smt.Term {
		if t.Op == "and" {
			return t.Args
		}
		return []*smt.Term{t}
	}
	cs := make([][]*smt.Term, len(rs))
	for i, r := range rs {
		cs[i] = conj(r)
	}
	n := 0
	for {
		ok := true
		for _, c := range cs {
			if n >= len(c) || c[n] != cs[0][n] {
				ok = false
				break
			}
		}
		if !ok {
			break
		}
		n++
	}
	out := make([]*smt.Term, len(rs))
	for i, c := range cs {
		out[i] = smt.And(c[n:]...)
	}
	return out
}

// ---------------------------------------------------------------------------
// obligations

func (e *Exec) oblName(kind string) string {
	path := ""
	if len(e.inlPath) > 0 {
		path = "@" + e.inlPath[len(e.inlPath)-1]
	}
	base := fmt.Sprintf("%s/%s%s", e.curFunc, kind, path)
	e.counters[base]++
	return fmt.Sprintf("%s#%d", base, e.counters[base])
}

// check emits an obligation (unless muted / spec) and assumes the goal afterwards.
func (e *Exec) check(st *State, kind string, goal *smt.Term, pos token.Pos, label string) {
	if st.Dead() {
		return
	}
	if goal.IsTrue() && !(kind == "assert" && e.mute == 0) {
		return
	}
	if e.mute > 0 {
		st.Assume(goal)
		return
	}
	if e.noSafety > 0 && ((kind == "pre" && !e.keepPre) || kind == "panic-reach") {
		st.Assume(goal)
		return
	}
	if goal.HasBound {
		unsupported("obligation under a quantifier")
	}
	name := ""
	if label != "" {
		name = fmt.Sprintf("%s/%s:%s", e.curFunc, kind, label)
		e.counters[name]++
		if e.counters[name] > 1 {
			name = fmt.Sprintf("%s~%d", name, e.counters[name])
		}
	} else {
		name = e.oblName(kind)
	}
	p, txt := e.W.SrcLine(pos)
	o := &Obligation{Name: name, Kind: kind, Func: e.curFunc, Pos: p, Text: txt, Hyp: e.hyp(st), Goal: goal,
		Values: e.inputs, ValueNames: e.inputNames, Props: e.curProps, Approx: e.approx > 0}
	for _, c := range st.Splits {
		if c.Op != "or" && c.Op != "and" && !c.HasBound {
			o.Splits = append(o.Splits, c)
		}
	}
	e.Obls = append(e.Obls, o)
	// a checked fact may be used afterwards; quantified goals (postconditions, invariants) are not
	// carried along: nothing later needs them and they multiply instantiation work
	if !smt.HasQuant(goal) {
		st.Assume(goal)
	}
}

func (e *Exec) hyp(st *State) *smt.Term {
	return smt.And(append(append([]*smt.Term{}, e.axioms...), st.Reach)...)
}

// safety obligations are skipped in spec mode.
func (e *Exec) safety(st *State, kind string, goal *smt.Term, pos token.Pos) {
	if e.spec > 0 {
		return
	}
	if e.noSafety > 0 {
		// safety of this function is not claimed: continue as if the check passed
		st.Assume(goal)
		return
	}
	e.check(st, kind, goal, pos, "")
}

func (e *Exec) fresh(hint string, s *smt.Sort) *smt.Term {
	if e.inQuant > 0 {
		unsupported("fresh constant %s under a quantifier (impure spec code)", hint)
	}
	return smt.Fresh(hint, s)
}

// freshVal makes a fresh value of Go type t (tuples supported) with type well-formedness assumed.
func (e *Exec) freshVal(st *State, hint string, t types.Type) *smt.Term {
	if tup, ok := t.(*types.Tuple); ok {
		args := make([]*smt.Term, tup.Len())
		for i := range args {
			args[i] = e.freshVal(st, fmt.Sprintf("%s.%d", hint, i), tup.At(i).Type())
		}
		return smt.TupleOf(args...)
	}
	v := e.fresh(hint, e.W.SortOf(t))
	e.assumeWF(st, v, t)
	return v
}

var cap48 = smt.Const(64, 1<<48)

// assumeWF adds the Go-runtime type invariants of a value.
func (e *Exec) assumeWF(st *State, v *smt.Term, t types.Type) {
	if v.HasBound {
		return
	}
	switch u := t.Underlying().(type) {
	case *types.Slice:
		if v.Op == "ctor" {
			// built by the executor after its bounds obligations: well-formed by construction
			return
		}
		e.fact(st, v, smt.And(
			smt.BVUle(SLen(v), SCap(v)),
			smt.BVUle(SCap(v), cap48),
			smt.BVUle(SOff(v), cap48),
			smt.Implies(smt.Eq(SArr(v), NilAddr), smt.Eq(SCap(v), smt.Const(64, 0))),
		))
	case *types.Interface:
		if v.Op != "ctor" {
			e.fact(st, v, smt.Implies(smt.Eq(ITyp(v), smt.Const(32, 0)), smt.Eq(IVal(v), NilAddr)))
		}
	case *types.Basic:
		if u.Info()&types.IsString != 0 && v.Op != "strlit" {
			e.fact(st, v, smt.BVUle(e.strlen(st, v), cap48))
		}
	case *types.Struct:
		for i := 0; i < u.NumFields(); i++ {
			ft := u.Field(i).Type()
			switch ft.Underlying().(type) {
			case *types.Slice, *types.Struct, *types.Interface:
				e.assumeWF(st, e.W.StructField(v, t, i), ft)
			}
		}
	}
}

func (e *Exec) strlen(st *State, s *smt.Term) *smt.Term {
	if s.Op == "strlit" {
		return smt.Const(64, uint64(len(s.Name)))
	}
	l := smt.App("strlen", BV64, s)
	if !s.HasBound {
		e.Axiom(smt.Eq(smt.Eq(l, smt.Const(64, 0)), smt.Eq(s, EmptyStr)))
	}
	return l
}

// isFresh: allocated after the given allocation counter value.
func isFresh(a *smt.Term, since *smt.Term) *smt.Term {
	switch {
	case a.Op == "ctor" && a.Name == "nil":
		return smt.False
	case a.Op == "ctor" && a.Name == "obj":
		// allocation counters are < 2^61 (axiom), so counter+k never wraps: decide syntactically
		if b1, c1 := splitAddC(since); true {
			if b2, c2 := splitAddC(a.Args[0]); b1 == b2 && c1 < 1<<32 && c2 < 1<<32 {
				return smt.BoolConst(c1 <= c2)
			}
		}
		return smt.BVUle(since, a.Args[0])
	case a.Op == "ctor" && (a.Name == "fld" || a.Name == "elm"):
		return isFresh(a.Args[0], since)
	case a.Op == "ite":
		return smt.Ite(a.Args[0], isFresh(a.Args[1], since), isFresh(a.Args[2], since))
	}
	return smt.And(smt.Is("obj", a), smt.BVUle(since, Oid(a)))
}

// addrsIn returns the address-valued components of a value of Go type t.
func (e *Exec) addrsIn(v *smt.Term, t types.Type) []*smt.Term {
	switch u := t.Underlying().(type) {
	case *types.Pointer, *types.Map, *types.Chan:
		return []*smt.Term{v}
	case *types.Slice:
		return []*smt.Term{SArr(v)}
	case *types.Interface:
		return []*smt.Term{IVal(v)}
	case *types.Basic:
		if u.Kind() == types.UnsafePointer {
			return []*smt.Term{v}
		}
	case *types.Struct:
		var out []*smt.Term
		for i := 0; i < u.NumFields(); i++ {
			out = append(out, e.addrsIn(e.W.StructField(v, t, i), u.Field(i).Type())...)
		}
		return out
	}
	return nil
}

func (e *Exec) assumeNotFresh(st *State, v *smt.Term, t types.Type, since *smt.Term) {
	if v.HasBound {
		return
	}
	for _, a := range e.addrsIn(v, t) {
		e.fact(st, v, smt.Not(isFresh(a, since)))
	}
}

func (e *Exec) assumeNotFreshIf(st *State, cond *smt.Term, v *smt.Term, t types.Type, since *smt.Term) {
	if v.HasBound || cond.HasBound {
		return
	}
	for _, a := range e.addrsIn(v, t) {
		e.fact(st, v, smt.Implies(cond, smt.Not(isFresh(a, since))))
	}
}

func splitAddC(t *smt.Term) (*smt.Term, uint64) {
	if t.Op == "bvadd" && len(t.Args) == 2 && t.Args[1].IsConst() {
		return t.Args[0], t.Args[1].Val
	}
	if t.Op == "bvadd" && len(t.Args) == 2 && t.Args[0].IsConst() {
		return t.Args[1], t.Args[0].Val
	}
	if t.IsConst() {
		return nil, t.Val
	}
	return t, 0
}

// literalMap turns the top-level conjuncts of a path condition into a substitution
// (literal -> true, negated literal -> false).
func literalMap(path *smt.Term) map[*smt.Term]*smt.Term {
	m := map[*smt.Term]*smt.Term{}
	var cs []*smt.Term
	if path.Op == "and" {
		cs = path.Args
	} else {
		cs = []*smt.Term{path}
	}
	for _, c := range cs {
		if c.Op == "not" {
			m[c.Args[0]] = smt.False
		} else if c.Op != "true" {
			m[c] = smt.True
		}
	}
	return m
}

// checkPerReturn emits one obligation per return path of the verified function: under each
// path the merged (ite) values collapse, which keeps terms small and matchable.
func (e *Exec) checkPerReturn(st *State, kind string, goal *smt.Term, label string, paths []*smt.Term) {
	if st.Dead() || goal.IsTrue() || e.mute > 0 {
		return
	}
	base := e.hyp(st)
	for i, p := range paths {
		m := literalMap(p)
		hyp := smt.Subst(smt.And(base, p), m)
		g := smt.Subst(goal, m)
		// keep the path facts themselves (they were replaced by true inside)
		hyp = smt.And(hyp, p)
		if hyp.IsFalse() || g.IsTrue() {
			continue
		}
		name := fmt.Sprintf("%s/%s:%s@path%d", e.curFunc, kind, label, i+1)
		o := &Obligation{Name: name, Kind: kind, Func: e.curFunc, Hyp: hyp, Goal: g,
			Values: e.inputs, ValueNames: e.inputNames, Props: e.curProps}
		e.Obls = append(e.Obls, o)
	}
	if !smt.HasQuant(goal) {
		st.Assume(goal)
	}
}

// assumeAllocated: every address held in a live value denotes an object allocated so far
// (allocation ids below the current counter). Without it a pointer read from memory could
// alias an object allocated later.
func (e *Exec) assumeAllocated(st *State, v *smt.Term, t types.Type) {
	if v.HasBound || st.Alloc.HasBound {
		return
	}
	for _, a := range e.addrsIn(v, t) {
		if a.Op == "ctor" {
			continue
		}
		e.fact(st, v, smt.Implies(smt.Is("obj", a), smt.BVUlt(Oid(a), st.Alloc)))
	}
}

// dnfPaths expands a path condition into at most limit conjunctions of literals (nil if larger).
func dnfPaths(t *smt.Term, limit int) [][]*smt.Term {
	switch t.Op {
	case "true":
		return [][]*smt.Term{{}}
	case "false":
		return [][]*smt.Term{}
	case "or":
		var out [][]*smt.Term
		for _, a := range t.Args {
			d := dnfPaths(a, limit)
			if d == nil {
				return nil
			}
			out = append(out, d...)
			if len(out) > limit {
				return nil
			}
		}
		return out
	case "and":
		out := [][]*smt.Term{{}}
		for _, a := range t.Args {
			d := dnfPaths(a, limit)
			if d == nil {
				return nil
			}
			var nxt [][]*smt.Term
			for _, x := range out {
				for _, y := range d {
					c := append(append([]*smt.Term{}, x...), y...)
					nxt = append(nxt, c)
					if len(nxt) > limit {
						return nil
					}
				}
			}
			out = nxt
		}
		return out
	}
	return [][]*smt.Term{{t}}
}

// iteConds collects the distinct selector conditions of ite terms inside t (DAG walk).
func iteConds(t *smt.Term, limit int) []*smt.Term {
	seen := map[int]bool{}
	cs := map[int]*smt.Term{}
	var order []*smt.Term
	var walk func(t *smt.Term)
	walk = func(t *smt.Term) {
		if seen[t.ID] || len(order) > limit {
			return
		}
		seen[t.ID] = true
		if t.Op == "ite" && !t.Args[0].HasBound {
			c := t.Args[0]
			if _, ok := cs[c.ID]; !ok {
				cs[c.ID] = c
				order = append(order, c)
			}
		}
		for _, a := range t.Args {
			walk(a)
		}
	}
	walk(t)
	return order
}

// checkCaseSplit proves goal by cases on the selector conditions of merged (ite) values.
func (e *Exec) checkCaseSplit(st *State, kind string, goal *smt.Term, label string, conds []*smt.Term) {
	if st.Dead() || goal.IsTrue() || e.mute > 0 {
		return
	}
	base := e.hyp(st)
	n := len(conds)
	for mask := 0; mask < 1<<uint(n); mask++ {
		m := map[*smt.Term]*smt.Term{}
		var lits []*smt.Term
		for i, c := range conds {
			if mask&(1<<uint(i)) != 0 {
				m[c] = smt.True
				lits = append(lits, c)
			} else {
				m[c] = smt.False
				lits = append(lits, smt.Not(c))
			}
		}
		// later conditions may contain earlier ones: substitute inside the literals as well
		caseCond := smt.And(lits...)
		if caseCond.IsFalse() {
			continue
		}
		hyp := smt.And(smt.Subst(base, m), caseCond)
		g := smt.Subst(goal, m)
		if hyp.IsFalse() || g.IsTrue() {
			continue
		}
		name := fmt.Sprintf("%s/%s:%s@case%d", e.curFunc, kind, label, mask)
		o := &Obligation{Name: name, Kind: kind, Func: e.curFunc, Hyp: hyp, Goal: g,
			Values: e.inputs, ValueNames: e.inputNames, Props: e.curProps}
		e.Obls = append(e.Obls, o)
	}
	if !smt.HasQuant(goal) {
		st.Assume(goal)
	}
}
