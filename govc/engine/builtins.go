package engine

import (
	"fmt"
	"go/token"
	"go/types"
	"math"

	"govc/smt"

	"golang.org/x/tools/go/ssa"
)

func mathFloat32bits(f float32) uint32 { return math.Float32bits(f) }
func mathFloat64bits(f float64) uint64 { return math.Float64bits(f) }

func (e *Exec) builtin(fr *frame, st *State, b *ssa.Builtin, c *ssa.CallCommon, args []*smt.Term, pos token.Pos) *smt.Term {
	switch b.Name() {
	case "len":
		switch u := c.Args[0].Type().Underlying().(type) {
		case *types.Slice:
			return SLen(args[0])
		case *types.Basic:
			return e.strlen(st, args[0])
		case *types.Map:
			return e.mapLen(st, u, args[0])
		case *types.Array:
			return smt.Const(64, uint64(u.Len()))
		case *types.Pointer:
			return smt.Const(64, uint64(u.Elem().Underlying().(*types.Array).Len()))
		case *types.Chan:
			return e.freshVal(st, "chanlen", types.Typ[types.Int])
		}
	case "cap":
		switch u := c.Args[0].Type().Underlying().(type) {
		case *types.Slice:
			return SCap(args[0])
		case *types.Array:
			return smt.Const(64, uint64(u.Len()))
		case *types.Pointer:
			return smt.Const(64, uint64(u.Elem().Underlying().(*types.Array).Len()))
		}
	case "append":
		return e.appendOp(st, c.Args[0].Type(), args[0], args[1], c.Args[1].Type(), pos)
	case "copy":
		return e.copyOp(st, c.Args[0].Type(), args[0], args[1], c.Args[1].Type(), pos)
	case "delete":
		mt := c.Args[0].Type().Underlying().(*types.Map)
		hk, hs, _, _ := e.mapHeaps(mt)
		m := args[0]
		k := e.mapKey(st, mt, args[1], c.Args[1].Type())
		has := smt.Select(e.heap(st, hk, hs), m)
		// delete on a nil map is a no-op
		e.writeHeapCond(st, smt.Neq(m, NilAddr), hk, hs, m, smt.Store(has, k, smt.False), pos)
		return smt.TupleOf()
	case "close":
		hs := smt.Array(AddrS, smt.Bool)
		e.heapSort["GH|chanClosed"] = hs
		e.writeHeap(st, smt.True, "GH|chanClosed", hs, args[0], nil, smt.True, pos)
		return smt.TupleOf()
	case "SliceData":
		// unsafe.SliceData: the address of the first element of the backing array window
		return Elm(SArr(args[0]), SOff(args[0]))
	case "print", "println":
		return smt.TupleOf()
	case "min", "max":
		t := c.Args[0].Type()
		r := args[0]
		for _, a := range args[1:] {
			var lt *smt.Term
			if isFloat(t) {
				unsupported("float min/max builtin")
			}
			lt = e.binop(st, token.LSS, a, r, t, t, pos)
			if b.Name() == "max" {
				lt = e.binop(st, token.LSS, r, a, t, t, pos)
			}
			r = smt.Ite(lt, a, r)
		}
		return r
	case "ssa:wrapnilchk":
		e.safety(st, "nil", smt.Neq(args[0], NilAddr), pos)
		return args[0]
	case "String": // unsafe.String(ptr, len)
		n := toIndex(args[1], c.Args[1].Type())
		e.safety(st, "bounds", smt.BVUle(n, cap48), pos)
		r := smt.App("str.unsafe", StrS, args[0], n)
		e.Axiom(smt.Implies(smt.BVUle(n, cap48), smt.Eq(e.strlen(st, r), n)))
		return r
	case "ssa:deferstack":
		return NilAddr
	case "recover":
		if e.recoverNondet && e.spec == 0 {
			// verifying a function literal on its own: it may run after a panic or not
			return e.freshVal(st, "recovered", types.NewInterfaceType(nil, nil))
		}
		if e.spec == 0 {
			unsupported("recover() in %s", fr.fn)
		}
		return NilIface
	case "clear":
		sl, ok := c.Args[0].Type().Underlying().(*types.Slice)
		if !ok || isAggregate(sl.Elem()) {
			unsupported("clear of %s", c.Args[0].Type())
		}
		s := args[0]
		key := elemKey(sl.Elem())
		hs := smt.Array(AddrS, smt.Array(BV64, e.W.SortOf(sl.Elem())))
		h := e.heap(st, key, hs)
		darr := smt.Select(h, SArr(s))
		nd := e.fresh("clear.arr", hs.Elem)
		e.boundCtr++
		i := smt.BoundVar(fmt.Sprintf("ci!%d", e.boundCtr), BV64)
		inRange := smt.And(smt.BVUle(SOff(s), i), smt.BVUlt(i, smt.BVAdd(SOff(s), SLen(s))))
		e.Axiom(smt.Forall([]*smt.Term{i}, smt.Eq(smt.Select(nd, i), smt.Ite(inRange, e.W.Zero(sl.Elem()), smt.Select(darr, i)))))
		e.writeHeap(st, smt.Neq(SLen(s), smt.Const(64, 0)), key, hs, SArr(s), nil, nd, pos)
		return smt.TupleOf()
	}
	unsupported("builtin %s", b.Name())
	return nil
}

func (e *Exec) writeHeapCond(st *State, cond *smt.Term, key string, hs *smt.Sort, a, v *smt.Term, pos token.Pos) {
	e.writeHeap(st, cond, key, hs, a, nil, v, pos)
}

// ---------------------------------------------------------------------------
// maps

func (e *Exec) mapHeaps(mt *types.Map) (hk string, hs *smt.Sort, vk string, vs *smt.Sort) {
	ks := e.mapKeySort(mt)
	name := typeName(mt)
	return "MH|" + name, smt.Array(AddrS, smt.Array(ks, smt.Bool)), "MV|" + name, smt.Array(AddrS, smt.Array(ks, e.W.SortOf(mt.Elem())))
}

func (e *Exec) mapKeySort(mt *types.Map) *smt.Sort {
	s := e.W.SortOf(mt.Key())
	return s
}

func (e *Exec) mapKey(st *State, mt *types.Map, k *smt.Term, kt types.Type) *smt.Term {
	if _, ok := mt.Key().Underlying().(*types.Interface); ok {
		return e.makeIface(st, k, kt)
	}
	return k
}

func (e *Exec) mapLen(st *State, mt *types.Map, m *smt.Term) *smt.Term {
	hk, hs, _, _ := e.mapHeaps(mt)
	has := smt.Select(e.heap(st, hk, hs), m)
	l := smt.App("maplen|"+typeName(mt), BV64, has)
	if !l.HasBound {
		e.Axiom(smt.BVUle(l, cap48))
		st.Assume(smt.Implies(smt.Eq(m, NilAddr), smt.Eq(l, smt.Const(64, 0))))
		if has.Op == "constarr" && has.Args[0].IsFalse() {
			return smt.Const(64, 0)
		}
	}
	return l
}

func (e *Exec) lookup(fr *frame, st *State, x *ssa.Lookup) *smt.Term {
	xv := e.val(fr, st, x.X)
	if isString(x.X.Type()) {
		iv := toIndex(e.val(fr, st, x.Index), x.Index.Type())
		e.safety(st, "bounds", smt.BVUlt(iv, e.strlen(st, xv)), x.Pos())
		return smt.App("strbyte", BV8, xv, iv)
	}
	mt := x.X.Type().Underlying().(*types.Map)
	hk, hs, vk, vs := e.mapHeaps(mt)
	k := e.mapKey(st, mt, e.val(fr, st, x.Index), x.Index.Type())
	has := smt.And(smt.Neq(xv, NilAddr), smt.Select(smt.Select(e.heap(st, hk, hs), xv), k))
	raw := smt.Select(smt.Select(e.heap(st, vk, vs), xv), k)
	e.assumeWF(st, raw, mt.Elem())
	raw0 := smt.Select(smt.Select(e.heapInit(vk, vs), xv), k)
	e.assumeNotFreshIf(st, smt.Not(isFresh(xv, e.alloc0)), raw0, mt.Elem(), e.alloc0)
	v := smt.Ite(has, raw, e.W.Zero(mt.Elem()))
	if x.CommaOk {
		return smt.TupleOf(v, has)
	}
	return v
}

func (e *Exec) mapUpdate(fr *frame, st *State, x *ssa.MapUpdate) {
	m := e.val(fr, st, x.Map)
	mt := x.Map.Type().Underlying().(*types.Map)
	hk, hs, vk, vs := e.mapHeaps(mt)
	e.safety(st, "nilmap", smt.Neq(m, NilAddr), x.Pos())
	k := e.mapKey(st, mt, e.val(fr, st, x.Key), x.Key.Type())
	v := e.val(fr, st, x.Value)
	if _, ok := mt.Elem().Underlying().(*types.Interface); ok {
		v = e.makeIface(st, v, x.Value.Type())
	}
	has := smt.Select(e.heap(st, hk, hs), m)
	vals := smt.Select(e.heap(st, vk, vs), m)
	e.writeHeap(st, smt.True, hk, hs, m, nil, smt.Store(has, k, smt.True), x.Pos())
	e.writeHeap(st, smt.True, vk, vs, m, nil, smt.Store(vals, k, v), x.Pos())
}

// next models one step of a map range: an arbitrary present key, or exhaustion.
func (e *Exec) next(fr *frame, st *State, x *ssa.Next) *smt.Term {
	if x.IsString {
		unsupported("range over string")
	}
	rng := x.Iter.(*ssa.Range)
	mt := rng.X.Type().Underlying().(*types.Map)
	m := e.val(fr, st, x.Iter)
	hk, hs, vk, vs := e.mapHeaps(mt)
	ok := e.fresh("rng.ok", smt.Bool)
	k := e.freshVal(st, "rng.k", mt.Key())
	has := smt.Select(smt.Select(e.heap(st, hk, hs), m), k)
	st.Assume(smt.Implies(ok, smt.And(smt.Neq(m, NilAddr), has)))
	raw := smt.Select(smt.Select(e.heap(st, vk, vs), m), k)
	e.assumeWF(st, raw, mt.Elem())
	raw0 := smt.Select(smt.Select(e.heapInit(vk, vs), m), k)
	e.assumeNotFreshIf(st, smt.Not(isFresh(m, e.alloc0)), raw0, mt.Elem(), e.alloc0)
	// ghost: remember the iteration domain (used by map-copy reasoning)
	return smt.TupleOf(ok, k, raw)
}

// ---------------------------------------------------------------------------
// append / copy

func (e *Exec) appendOp(st *State, stype types.Type, s, more *smt.Term, moreT types.Type, pos token.Pos) *smt.Term {
	sl := stype.Underlying().(*types.Slice)
	et := sl.Elem()
	var n *smt.Term
	str := isString(moreT)
	if str {
		n = e.strlen(st, more)
	} else {
		n = SLen(more)
	}
	if n.IsConst() && n.Val == 0 {
		return s
	}
	ln, cp := SLen(s), SCap(s)
	newLen := smt.BVAdd(ln, n)
	inPlace := smt.BVUle(newLen, cp)
	if isAggregate(et) {
		return e.appendAgg(st, et, s, more, n, newLen, inPlace, pos)
	}
	key := elemKey(et)
	es := e.W.SortOf(et)
	hs := smt.Array(AddrS, smt.Array(BV64, es))
	h := e.heap(st, key, hs)
	srcArr := func(i *smt.Term) *smt.Term {
		if str {
			return smt.App("strbyte", BV8, more, i)
		}
		return smt.Select(smt.Select(h, SArr(more)), smt.BVAdd(SOff(more), i))
	}
	// in-place arm
	sIn := st.Clone()
	sIn.Branch(inPlace)
	var resIn *smt.Term
	if !sIn.Dead() {
		dst := smt.Select(h, SArr(s))
		base := smt.BVAdd(SOff(s), ln)
		if n.IsConst() && n.Val <= 16 {
			for i := uint64(0); i < n.Val; i++ {
				dst = smt.Store(dst, smt.BVAdd(base, smt.Const(64, i)), srcArr(smt.Const(64, i)))
			}
		} else {
			nd := e.fresh("app.arr", hs.Elem)
			e.boundCtr++
			i := smt.BoundVar(fmt.Sprintf("ai!%d", e.boundCtr), BV64)
			inRange := smt.And(smt.BVUle(base, i), smt.BVUlt(i, smt.BVAdd(base, n)))
			e.Axiom(smt.Forall([]*smt.Term{i},
				smt.Eq(smt.Select(nd, i), smt.Ite(inRange, srcArr(smt.BVSub(i, base)), smt.Select(dst, i)))))
			dst = nd
		}
		e.writeHeap(sIn, smt.Neq(n, smt.Const(64, 0)), key, hs, SArr(s), nil, dst, pos)
		resIn = MkSlice(SArr(s), SOff(s), newLen, cp)
	}
	// reallocating arm
	sRe := st
	sRe.Branch(smt.Not(inPlace))
	var resRe *smt.Term
	if !sRe.Dead() {
		arr := e.newObj(sRe)
		ncap := e.fresh("app.cap", BV64)
		// memory exhaustion is not modelled: the grown slice fits the address space
		sRe.Assume(smt.BVUle(newLen, cap48))
		sRe.Assume(smt.And(smt.BVUle(newLen, ncap), smt.BVUle(ncap, cap48)))
		old := smt.Select(h, SArr(s))
		var content *smt.Term
		if n.IsConst() && n.Val <= 16 && ln.IsConst() && ln.Val <= 16 {
			content = smt.ConstArr(hs.Elem, e.W.Zero(et))
			for i := uint64(0); i < ln.Val; i++ {
				content = smt.Store(content, smt.Const(64, i), smt.Select(old, smt.BVAdd(SOff(s), smt.Const(64, i))))
			}
			for i := uint64(0); i < n.Val; i++ {
				content = smt.Store(content, smt.BVAdd(ln, smt.Const(64, i)), srcArr(smt.Const(64, i)))
			}
		} else {
			content = e.fresh("app.new", hs.Elem)
			e.boundCtr++
			i := smt.BoundVar(fmt.Sprintf("ai!%d", e.boundCtr), BV64)
			body := smt.Eq(smt.Select(content, i),
				smt.Ite(smt.BVUlt(i, ln), smt.Select(old, smt.BVAdd(SOff(s), i)),
					smt.Ite(smt.BVUlt(i, newLen), srcArr(smt.BVSub(i, ln)), e.W.Zero(et))))
			e.Axiom(smt.Forall([]*smt.Term{i}, body))
		}
		e.fstack = append(e.fstack, nil)
		e.writeHeap(sRe, smt.True, key, hs, arr, nil, content, pos)
		e.fstack = e.fstack[:len(e.fstack)-1]
		resRe = MkSlice(arr, smt.Const(64, 0), newLen, ncap)
	}
	if sIn.Dead() {
		return resRe
	}
	if sRe.Dead() {
		*st = *sIn
		return resIn
	}
	m := e.merge([]*State{sIn, sRe})
	res := smt.Ite(inPlace, resIn, resRe)
	*st = *m
	return res
}

// appendAgg: append for slices of structs; supports a constant number of appended elements.
func (e *Exec) appendAgg(st *State, et types.Type, s, more, n, newLen, inPlace *smt.Term, pos token.Pos) *smt.Term {
	if !n.IsConst() || n.Val > 8 {
		return e.appendAggSym(st, et, s, more, n, newLen, inPlace, pos)
	}
	ln, cp := SLen(s), SCap(s)
	sIn := st.Clone()
	sIn.Branch(inPlace)
	var resIn, resRe *smt.Term
	if !sIn.Dead() {
		base := smt.BVAdd(SOff(s), ln)
		for i := uint64(0); i < n.Val; i++ {
			v := e.load(sIn, Elm(SArr(more), smt.BVAdd(SOff(more), smt.Const(64, i))), et)
			e.store(sIn, Elm(SArr(s), smt.BVAdd(base, smt.Const(64, i))), et, v, pos)
		}
		resIn = MkSlice(SArr(s), SOff(s), newLen, cp)
	}
	sRe := st
	sRe.Branch(smt.Not(inPlace))
	if !sRe.Dead() {
		arr := e.newObj(sRe)
		ncap := e.fresh("app.cap", BV64)
		sRe.Assume(smt.And(smt.BVUle(newLen, ncap), smt.BVUle(ncap, cap48)))
		// old elements copied: forall i < len: elem(arr,i) == elem(old, off+i)
		e.boundCtr++
		i := smt.BoundVar(fmt.Sprintf("ai!%d", e.boundCtr), BV64)
		e.inQuant++
		tmp := sRe.Clone()
		nv := e.load(tmp, Elm(arr, i), et)
		ov := e.load(tmp, Elm(SArr(s), smt.BVAdd(SOff(s), i)), et)
		e.inQuant--
		e.Axiom(smt.Forall([]*smt.Term{i}, smt.Implies(smt.BVUlt(i, ln), smt.Eq(nv, ov))))
		e.fstack = append(e.fstack, nil)
		for k := uint64(0); k < n.Val; k++ {
			v := e.load(sRe, Elm(SArr(more), smt.BVAdd(SOff(more), smt.Const(64, k))), et)
			e.store(sRe, Elm(arr, smt.BVAdd(ln, smt.Const(64, k))), et, v, pos)
		}
		e.fstack = e.fstack[:len(e.fstack)-1]
		resRe = MkSlice(arr, smt.Const(64, 0), newLen, ncap)
	}
	if sIn.Dead() {
		return resRe
	}
	if sRe.Dead() {
		*st = *sIn
		return resIn
	}
	m := e.merge([]*State{sIn, sRe})
	*st = *m
	return smt.Ite(inPlace, resIn, resRe)
}

func (e *Exec) copyOp(st *State, dt types.Type, dst, src *smt.Term, srcT types.Type, pos token.Pos) *smt.Term {
	et := dt.Underlying().(*types.Slice).Elem()
	if isAggregate(et) {
		unsupported("copy of aggregate elements")
	}
	str := isString(srcT)
	var sn *smt.Term
	if str {
		sn = e.strlen(st, src)
	} else {
		sn = SLen(src)
	}
	n := smt.Ite(smt.BVUlt(sn, SLen(dst)), sn, SLen(dst))
	key := elemKey(et)
	hs := smt.Array(AddrS, smt.Array(BV64, e.W.SortOf(et)))
	h := e.heap(st, key, hs)
	darr := smt.Select(h, SArr(dst))
	srcAt := func(i *smt.Term) *smt.Term {
		if str {
			return smt.App("strbyte", BV8, src, i)
		}
		return smt.Select(smt.Select(h, SArr(src)), smt.BVAdd(SOff(src), i))
	}
	if n.IsConst() && n.Val == 0 {
		return n
	}
	var nd *smt.Term
	if n.IsConst() && n.Val <= 16 {
		nd = darr
		for i := uint64(0); i < n.Val; i++ {
			nd = smt.Store(nd, smt.BVAdd(SOff(dst), smt.Const(64, i)), srcAt(smt.Const(64, i)))
		}
	} else {
		nd = e.fresh("copy.arr", hs.Elem)
		e.boundCtr++
		i := smt.BoundVar(fmt.Sprintf("ci!%d", e.boundCtr), BV64)
		base := SOff(dst)
		inRange := smt.And(smt.BVUle(base, i), smt.BVUlt(i, smt.BVAdd(base, n)))
		e.Axiom(smt.Forall([]*smt.Term{i},
			smt.Eq(smt.Select(nd, i), smt.Ite(inRange, srcAt(smt.BVSub(i, base)), smt.Select(darr, i)))))
	}
	e.writeHeap(st, smt.Neq(n, smt.Const(64, 0)), key, hs, SArr(dst), nil, nd, pos)
	return n
}

// appendAggSym: append of a symbolic number of struct elements (flat structs only). Every field
// heap gets a fresh version defined pointwise by a quantified axiom over addresses.
func (e *Exec) appendAggSym(st *State, et types.Type, s, more, n, newLen, inPlace *smt.Term, pos token.Pos) *smt.Term {
	stt, ok := et.Underlying().(*types.Struct)
	if !ok {
		unsupported("append of a symbolic number of array elements")
	}
	for i := 0; i < stt.NumFields(); i++ {
		if isAggregate(stt.Field(i).Type()) {
			unsupported("append of a symbolic number of nested aggregate elements")
		}
	}
	ln, cp := SLen(s), SCap(s)
	arr := e.newObj(st)
	ncap := e.fresh("app.cap", BV64)
	st.Assume(smt.BVUle(newLen, cap48))
	e.Axiom(smt.Implies(smt.BVUle(newLen, cap48), smt.And(smt.BVUle(newLen, ncap), smt.BVUle(ncap, cap48))))
	dstArr := smt.Ite(inPlace, SArr(s), arr)
	dstOff := smt.Ite(inPlace, SOff(s), smt.Const(64, 0))
	// frame: the in-place arm writes the spare capacity of the old array
	e.checkFrame(st, smt.And(inPlace, smt.Neq(n, smt.Const(64, 0))), "F|"+structKey(et), SArr(s), pos)
	for i := 0; i < stt.NumFields(); i++ {
		fid := e.W.FieldID(et, i)
		key := e.W.fieldInfo[fid].key
		hs := e.fieldHeapSort(fid)
		h := e.heap(st, key, hs)
		nh := e.fresh("app|"+key, hs)
		e.boundCtr++
		a := smt.BoundVar(fmt.Sprintf("aa!%d", e.boundCtr), AddrS)
		idx := smt.Sel(AddrS, "elm", 1, a)
		inNew := smt.And(smt.Is("elm", a), smt.Eq(smt.Sel(AddrS, "elm", 0, a), dstArr))
		rel := smt.BVSub(idx, dstOff) // index relative to the slice start
		copied := smt.And(inNew, smt.Not(inPlace), smt.BVUlt(rel, ln))
		appended := smt.And(inNew, smt.BVUle(ln, rel), smt.BVUlt(rel, newLen))
		fromOld := smt.Select(h, Elm(SArr(s), smt.BVAdd(SOff(s), rel)))
		fromSrc := smt.Select(h, Elm(SArr(more), smt.BVAdd(SOff(more), smt.BVSub(rel, ln))))
		e.Axiom(smt.Forall([]*smt.Term{a}, smt.Eq(smt.Select(nh, a), smt.Ite(appended, fromSrc, smt.Ite(copied, fromOld, smt.Select(h, a))))))
		e.setHeap(st, key, nh, nil)
	}
	return MkSlice(dstArr, dstOff, newLen, smt.Ite(inPlace, cp, ncap))
}
