package engine

import (
	"fmt"
	"os"
	"go/token"
	"go/types"
	"strings"

	"govc/smt"

	"golang.org/x/tools/go/ssa"
)

// callCommon handles call / deferred call. For deferred calls rec carries the saved args.
func (e *Exec) callCommon(fr *frame, st *State, c *ssa.CallCommon, instr ssa.Instruction, rec *deferRec) *smt.Term {
	pos := instr.Pos()
	var args []*smt.Term
	if rec != nil {
		args = rec.Args
	} else {
		for _, a := range c.Args {
			args = append(args, e.val(fr, st, a))
		}
	}
	resT := c.Signature().Results()
	var resType types.Type = resT
	if resT.Len() == 1 {
		resType = resT.At(0).Type()
	}

	if c.IsInvoke() {
		var recv *smt.Term
		if rec != nil {
			recv = rec.Fn
		} else {
			recv = e.val(fr, st, c.Value)
		}
		return e.invoke(fr, st, c, recv, args, resType, pos)
	}
	fr.curCallArg0 = nil
	if len(c.Args) > 0 {
		if mi, ok := c.Args[0].(*ssa.MakeInterface); ok {
			fr.curCallArg0 = mi.X
		}
	}
	switch v := c.Value.(type) {
	case *ssa.Builtin:
		return e.builtin(fr, st, v, c, args, pos)
	case *ssa.Function:
		return e.callStatic(fr, st, v, args, nil, resType, pos)
	case *ssa.MakeClosure:
		fn := v.Fn.(*ssa.Function)
		var bs []*smt.Term
		cl := e.val(fr, st, v)
		bs = cl.Args
		return e.callStatic(fr, st, fn, args, bs, resType, pos)
	}
	var fv *smt.Term
	if rec != nil && rec.Fn != nil {
		fv = rec.Fn
	} else {
		fv = e.val(fr, st, c.Value)
	}
	if fv.Op == "closure" {
		switch f := fv.Aux.(type) {
		case *ssa.Function:
			return e.callStatic(fr, st, f, args, fv.Args, resType, pos)
		}
	}
	e.safety(st, "nil", smt.Neq(fv, NilFunc), pos)
	// clock / sleep / yield sources configured through wazero/sys function types: assumed not to
	// touch runtime state (they are host callbacks that only report time or wait)
	if n, ok := c.Value.Type().(*types.Named); ok && n.Obj().Pkg() != nil && n.Obj().Pkg().Path() == ModulePath+"/sys" {
		e.W.Note("assumed without effect on runtime state: calls of configured " + n.Obj().Name() + " function values")
		e.bumpAlloc(st)
		return e.freshVal(st, "cb", resType)
	}
	return e.unknownCall(st, "func value "+c.Value.Name()+" in "+shortFn(fr.fn), resType, pos)
}

func (e *Exec) unknownCall(st *State, what string, resType types.Type, pos token.Pos) *smt.Term {
	if e.spec > 0 {
		unsupported("call to unknown %s in spec code", what)
	}
	e.Abstracted[what] = true
	e.havocAll(st, what, pos)
	e.bumpAlloc(st)
	res := e.freshVal(st, "ret", resType)
	e.assumeAllocatedVal(st, res, resType)
	return res
}

func (e *Exec) bumpAlloc(st *State) {
	na := e.fresh("alloc", BV64)
	e.Axiom(smt.BVUle(st.Alloc, na))
	e.Axiom(smt.BVUle(na, smt.Const(64, 1<<61)))
	st.Alloc = na
	if e.disc != nil {
		e.disc.alloc = true
	}
}

func (e *Exec) invoke(fr *frame, st *State, c *ssa.CallCommon, recv *smt.Term, args []*smt.Term, resType types.Type, pos token.Pos) *smt.Term {
	if len(e.hstack) > 0 {
		h := e.hstack[len(e.hstack)-1]
		if h.atTarget {
			h.atTarget = false
			h.snap = st.Clone()
			if !h.apply {
				unsupported("interface method contracts cannot be verified, only applied")
			}
			return e.applyHavoc(st, h, nil, resType)
		}
	}
	e.safety(st, "nil", smt.Neq(ITyp(recv), smt.Const(32, 0)), pos)
	ty := ITyp(recv)
	if ty.IsConst() && ty.Val != 0 {
		dt := e.W.typeByID[ty.Val]
		ms := e.W.Prog.MethodSets.MethodSet(dt)
		sel := ms.Lookup(c.Method.Pkg(), c.Method.Name())
		if sel != nil {
			fn := e.W.Prog.MethodValue(sel)
			if fn != nil {
				rv := e.ifacePayload(recv, dt)
				return e.callStatic(fr, st, fn, append([]*smt.Term{rv}, args...), nil, resType, pos)
			}
		}
	}
	// interface method contract?
	key := ifaceKeyOf(c)
	if con := e.W.IfaceCons[key]; con != nil {
		return e.applyContract(st, con, append([]*smt.Term{recv}, args...), resType, pos)
	}
	if h, ok := ifaceIntrinsics[key]; ok {
		return h(e, st, recv, args, resType, pos)
	}
	return e.unknownCall(st, "interface method "+key, resType, pos)
}

func ifaceKey(t types.Type, m string) string {
	return typeName(t) + "." + m
}

// ifaceKeyOf identifies an interface method by the interface that declares it, so that a
// contract on an embedded interface's method also applies through the embedding interface.
func ifaceKeyOf(c *ssa.CallCommon) string {
	if c.Method != nil {
		if sig, ok := c.Method.Type().(*types.Signature); ok && sig.Recv() != nil {
			return typeName(sig.Recv().Type()) + "." + c.Method.Name()
		}
		return ifaceKey(c.Value.Type(), c.Method.Name())
	}
	return ""
}

// conOf: the contract that governs a call of fn made from frame fr. Contracts on functions of
// another package (stdlib, dependencies) are assumptions local to the package that states them.
func (e *Exec) conOf(fr *frame, fn *ssa.Function) *Contract {
	if c := e.W.Contracts[fn]; c != nil {
		return c
	}
	m := e.W.ExtContracts[fn]
	if m == nil || fr == nil || fr.fn == nil {
		return nil
	}
	f := fr.fn
	for f.Parent() != nil {
		f = f.Parent()
	}
	if o := f.Origin(); o != nil {
		f = o
	}
	if f.Pkg == nil {
		return nil
	}
	p := f.Pkg.Pkg.Path()
	if c := m[p]; c != nil {
		return c
	}
	// spec code / harnesses of the stating package run through inlined frames of other packages:
	// fall back to the harness on top of the stack
	if len(e.hstack) > 0 {
		if c := m[e.hstack[0].con.Pkg]; c != nil {
			return c
		}
	}
	return nil
}

// learnFacts records the equalities `term == constant` (and plain boolean atoms) among the conjuncts
// of a precondition of the function under verification. They are pure terms over the entry state, so
// they hold everywhere; fold uses them to decide branch conditions syntactically, which prunes the
// arms of a big switch that the precondition excludes (case contracts).
func (e *Exec) learnFacts(t *smt.Term) {
	if e.facts == nil {
		e.facts = map[*smt.Term]*smt.Term{}
	}
	learn := func(a *smt.Term, v *smt.Term) bool {
		if a.HasBound || a.Op == "true" || a.Op == "false" {
			return false
		}
		if _, ok := e.facts[a]; ok {
			return false
		}
		e.facts[a] = v
		if v == smt.True && a.Op == "=" && len(a.Args) == 2 {
			if a.Args[1].IsConst() && !a.Args[0].IsConst() {
				e.facts[a.Args[0]] = a.Args[1]
			} else if a.Args[0].IsConst() && !a.Args[1].IsConst() {
				e.facts[a.Args[1]] = a.Args[0]
			}
		}
		return true
	}
	// unit propagation: top-level literals become facts, are substituted, and may expose new ones
	cur := smt.Subst(t, e.facts)
	for iter := 0; iter < 32; iter++ {
		changed := false
		var conj []*smt.Term
		if cur.Op == "and" {
			conj = cur.Args
		} else {
			conj = []*smt.Term{cur}
		}
		for _, c := range conj {
			switch {
			case c.Op == "not" && c.Args[0].Op != "and" && c.Args[0].Op != "or" && c.Args[0].Op != "ite":
				if learn(c.Args[0], smt.False) {
					changed = true
				}
			case c.Op != "and" && c.Op != "or" && c.Op != "not" && c.Op != "ite" && c.S == smt.Bool:
				if learn(c, smt.True) {
					changed = true
				}
			}
		}
		if !changed {
			break
		}
		cur = smt.Subst(cur, e.facts)
	}
	if debugFold {
		fmt.Fprintf(os.Stderr, "facts: %d, residue %s\n", len(e.facts), cur.Short(300))
	}
	e.foldMemo = nil
}

func (e *Exec) fold(t *smt.Term) *smt.Term {
	if len(e.facts) == 0 {
		return t
	}
	if e.foldMemo == nil {
		e.foldMemo = map[*smt.Term]*smt.Term{}
	}
	if r, ok := e.foldMemo[t]; ok {
		return r
	}
	r := smt.Subst(t, e.facts)
	e.foldMemo[t] = r
	return r
}

// forcedInline: the harness on top names this callee in its inline-calls clause.
func (e *Exec) forcedInline(name string) bool {
	if len(e.hstack) == 0 {
		return false
	}
	for _, n := range e.hstack[len(e.hstack)-1].con.InlineCalls {
		if strings.HasSuffix(name, n) {
			return true
		}
	}
	return false
}

// callStatic: intrinsic model, contract, inline or havoc.
func (e *Exec) callStatic(fr *frame, st *State, fn *ssa.Function, args, bindings []*smt.Term, resType types.Type, pos token.Pos) *smt.Term {
	name := fn.String()
	if o := fn.Origin(); o != nil {
		name = o.String()
	}
	if strings.Contains(name, "verif_") {
		if i := strings.LastIndex(name, "."); i >= 0 && strings.HasPrefix(name[i+1:], "verif_") && !strings.HasPrefix(name[i+1:], "verif_C_") && !strings.HasPrefix(name[i+1:], "verif_I_") && name[i+1:] != "verif_maphas" {
			return e.verifIntrinsic(fr, st, name[i+1:], fn, args, resType, pos)
		}
	}
	// harness target?
	if len(e.hstack) > 0 {
		h := e.hstack[len(e.hstack)-1]
		if h.atTarget {
			h.atTarget = false
			return e.atTarget(fr, st, h, fn, args, resType, pos)
		}
	}
	if h, ok := intrinsics[name]; ok {
		return h(e, st, fn, args, resType, pos)
	}
	if c := e.conOf(fr, fn); stdInline(name) && len(fn.Blocks) > 0 && (c == nil || c.Inline || e.spec != 0) {
		res, out, err := e.tryInline(st, fn, args, bindings, nil)
		if err == nil {
			*st = *out
			return res
		}
		e.W.Note(fmt.Sprintf("stdlib %s could not be executed (%v)", name, err))
	}
	if pureExternal(name) && e.conOf(fr, fn) == nil {
		e.W.Note("assumed pure (no heap effect, unconstrained result): " + name)
		e.approx++
		if e.inQuant > 0 {
			// deterministic function of its arguments inside quantified spec code
			var as []*smt.Term
			for _, a := range args {
				if a.S.Kind != smt.KTuple {
					as = append(as, a)
				}
			}
			if t, ok := resType.(*types.Tuple); ok && t.Len() != 1 {
				unsupported("pure external with tuple result under quantifier")
			}
			return smt.App("ext|"+name, e.W.SortOf(resType), as...)
		}
		e.bumpAlloc(st)
		return e.freshVal(st, "ext", resType)
	}
	if con := e.conOf(fr, fn); con != nil && !con.Inline && e.spec == 0 && !e.forcedInline(name) {
		return e.applyContract(st, con, args, resType, pos)
	}
	// a contract written for another instantiation of the same generic function
	if o := fn.Origin(); o != nil && e.conOf(fr, fn) == nil && e.spec == 0 {
		if tgt := e.W.ByOrigin[o]; tgt != nil && tgt != fn {
			con := e.W.Contracts[tgt]
			ta, tb := tgt.TypeArgs(), fn.TypeArgs()
			if !con.Inline && len(ta) == len(tb) {
				save := keySubst
				for i := range ta {
					x, y := baseTypeName(ta[i]), baseTypeName(tb[i])
					if x != y {
						keySubst = append(keySubst[:len(keySubst):len(keySubst)], [2]string{x, y})
					}
				}
				e.W.Note(fmt.Sprintf("contract of %s applied to instantiation %s (same generic code; heap names mapped by type argument)", con.Display(), shortFn(fn)))
				res := e.applyContract(st, con, args, resType, pos)
				keySubst = save
				return res
			}
		}
	}
	if con := e.conOf(fr, fn); con != nil && !con.Inline && e.spec > 0 && con.Trusted && !e.lemmaMode {
		return e.applyContract(st, con, args, resType, pos)
	}
	inRepo := fn.Pkg != nil && strings.HasPrefix(fn.Pkg.Pkg.Path(), ModulePath) || fn.Pkg == nil && fn.Parent() != nil ||
		fn.Pkg == nil && fn.Origin() != nil && fn.Origin().Pkg != nil && strings.HasPrefix(fn.Origin().Pkg.Pkg.Path(), ModulePath)
	if fn.Pkg == nil && fn.Synthetic != "" && len(fn.Blocks) > 0 {
		inRepo = true // wrappers, bound methods, instantiations
	}
	if len(fn.Blocks) > 0 && (inRepo || e.spec > 0) && len(e.frames) < e.MaxInline+e.specDepthBonus() {
		res, out, err := e.tryInline(st, fn, args, bindings, e.conOf(fr, fn))
		if err == nil {
			*st = *out
			return res
		}
		if e.spec > 0 {
			panic(err)
		}
		e.W.Note(fmt.Sprintf("callee %s not inlined (%v): abstracted by havoc", shortFn(fn), err))
	}
	if os.Getenv("GOVC_DEBUG_HAVOC") != "" {
		fmt.Fprintf(os.Stderr, "unknown call %s: blocks=%d inRepo=%v frames=%d max=%d\n", shortFn(fn), len(fn.Blocks), inRepo, len(e.frames), e.MaxInline)
	}
	return e.unknownCall(st, shortFn(fn), resType, pos)
}

func (e *Exec) specDepthBonus() int {
	if e.spec > 0 {
		return 12
	}
	return 0
}

func (e *Exec) tryInline(st *State, fn *ssa.Function, args, bindings []*smt.Term, con *Contract) (res *smt.Term, out *State, err error) {
	saveObls := len(e.Obls)
	saveFrames := len(e.frames)
	saveInl := len(e.inlPath)
	saveF := len(e.fstack)
	saveH := len(e.hstack)
	saveSpec, saveMute, saveQ := e.spec, e.mute, e.inQuant
	tmp := st.Clone()
	defer func() {
		if r := recover(); r != nil {
			if u, ok := r.(Unsupported); ok {
				e.Obls = e.Obls[:saveObls]
				e.frames = e.frames[:saveFrames]
				e.inlPath = e.inlPath[:saveInl]
				e.fstack = e.fstack[:saveF]
				e.hstack = e.hstack[:saveH]
				e.spec, e.mute, e.inQuant = saveSpec, saveMute, saveQ
				err = u
				return
			}
			panic(r)
		}
	}()
	res, out = e.inlineCall(tmp, fn, args, bindings, con)
	return res, out, nil
}

func (e *Exec) inlineCall(st *State, fn *ssa.Function, args, bindings []*smt.Term, con *Contract) (*smt.Term, *State) {
	if e.spec == 0 {
		e.inlPath = append(e.inlPath, shortFn(fn))
		defer func() { e.inlPath = e.inlPath[:len(e.inlPath)-1] }()
	}
	return e.runFunc(fn, args, bindings, st, con)
}

// ---------------------------------------------------------------------------
// contracts: verify (target inlined) and apply (target replaced by its contract)

func (e *Exec) atTarget(fr *frame, st *State, h *hctx, fn *ssa.Function, args []*smt.Term, resType types.Type, pos token.Pos) *smt.Term {
	h.snap = st.Clone()
	if !h.apply && e.vacuityOn {
		e.Obls = append(e.Obls, &Obligation{Name: h.con.Display() + "/vacuity:pre", Kind: "vacuity", Func: h.con.Display(),
			Hyp: e.hyp(st), Goal: smt.False, Vacuity: true, Props: h.con.Props, Text: "precondition satisfiable"})
	}
	if h.apply {
		return e.applyHavoc(st, h, fn, resType)
	}
	// verify: run the real body with obligations on
	saveSpec := e.spec
	e.spec = 0
	var fs *frameSpec
	if h.hasMod {
		fs = h.frame
		fs.snapAlloc = st.Alloc
	} else {
		fs = &frameSpec{all: true, snapAlloc: st.Alloc, deny: h.frame.deny}
	}
	if len(h.calleeKeep) > 0 && !h.apply {
		saveKeep := e.keepOnHavoc
		e.keepOnHavoc = h.calleeKeep
		defer func() { e.keepOnHavoc = saveKeep }()
	}
	if h.allocBound != nil && !h.apply {
		saveAB := e.allocBound
		e.allocBound = h.allocBound
		defer func() { e.allocBound = saveAB }()
	}
	if h.con.NoSafety {
		e.noSafety++
		saveKP := e.keepPre
		e.keepPre = h.con.KeepPre
		defer func() { e.noSafety--; e.keepPre = saveKP }()
	}
	if h.con.InlineDepth > 0 {
		save := e.MaxInline
		e.MaxInline = len(e.frames) + h.con.InlineDepth
		defer func() { e.MaxInline = save }()
	}
	e.fstack = append(e.fstack, fs)
	saveMP := e.mayPanic
	e.mayPanic = h.mayPanic
	res, out := e.runFunc(fn, args, nil, st, h.con)
	h.retPaths = e.lastRetPaths
	e.mayPanic = saveMP
	e.fstack = e.fstack[:len(e.fstack)-1]
	e.spec = saveSpec
	*st = *out
	return res
}

func (e *Exec) applyHavoc(st *State, h *hctx, fn *ssa.Function, resType types.Type) *smt.Term {
	// the callee panics under its may-panic condition: caller must exclude or allow it
	if len(h.mayPanic) > 0 {
		mp := smt.Or(h.mayPanic...)
		saveSpec := e.spec
		e.spec = 0
		goal := smt.Not(mp)
		if len(e.mayPanic) > 0 {
			goal = smt.Or(goal, smt.Or(e.mayPanic...))
		}
		e.check(st, "panic-reach", goal, h.callPos, "")
		st.Assume(smt.Not(mp))
		e.spec = saveSpec
	}
	if !h.hasMod || h.frame.all {
		e.Abstracted["(modifies *) "+h.con.Display()] = true
		// locations the contract promises to preserve survive the havoc
		type keep struct {
			loc frameLoc
			val *smt.Term
		}
		var keeps []keep
		for _, l := range h.frame.deny {
			if hs, ok := e.heapSort[l.key]; ok {
				keeps = append(keeps, keep{l, smt.Select(e.heap(st, l.key, hs), l.addr)})
			}
		}
		e.havocAll(st, h.con.Display(), h.callPos)
		for _, k := range keeps {
			hs := e.heapSort[k.loc.key]
			st.Heaps[k.loc.key] = smt.Store(e.heap(st, k.loc.key, hs), k.loc.addr, k.val)
		}
		// ghosts the contract lists next to `all` (local ghosts, which an unknown callee leaves alone)
		for _, l := range h.frame.locs {
			if strings.HasPrefix(l.key, "G|") && l.key != "G|*" {
				st.Ghost[l.key] = e.fresh("g."+l.key[2:], ghostSort(l.key[2:]))
			}
		}
	} else {
		saveSpec := e.spec
		e.spec = 0
		for _, l := range h.frame.locs {
			if l.key == "*" {
				// whole object: every field heap at this address
				for k := range e.heapSort {
					if strings.HasPrefix(k, "F|") {
						e.havocLoc(st, k, l.addr, h.callPos)
					}
				}
				continue
			}
			if l.key == "@elems" {
				// over-approximation on the caller's side: the fields of ALL objects of the element type
				// are forgotten (not only those inside this array)
				e.havocStructHeaps(st, elemsType[l.addr], l.addr)
				continue
			}
			if l.key == "G|*" {
				// every ghost variable known so far
				for k := range e.ghostNames {
					if strings.HasPrefix(k, "H:") {
						continue // history ghosts change only through `records` (or an explicit modifies entry)
					}
					if e.ghostFrameRestricted("G|" + k) {
						h.pendingGhost = append(h.pendingGhost, pendingGhostCheck{"G|" + k, e.ghostInt(st, k)})
					}
					st.Ghost["G|"+k] = e.fresh("g."+k, ghostSort(k))
					if e.disc != nil {
						e.disc.ghost["G|"+k] = true
					}
				}
				continue
			}
			if strings.HasPrefix(l.key, "G|") {
				// whether the counter really changes is decided after the callee's ensures are known
				if e.ghostFrameRestricted(l.key) {
					h.pendingGhost = append(h.pendingGhost, pendingGhostCheck{l.key, e.ghostInt(st, l.key[2:])})
				}
				st.Ghost[l.key] = e.fresh("g."+l.key[2:], ghostSort(l.key[2:]))
				if e.disc != nil {
					e.disc.ghost[l.key] = true
				}
				continue
			}
			e.havocLoc(st, l.key, l.addr, h.callPos)
		}
		e.spec = saveSpec
	}
	e.bumpAlloc(st)
	res := e.freshVal(st, "r."+h.con.FuncName, resType)
	e.assumeAllocatedVal(st, res, resType)
	e.lastResult = res
	return res
}

// runHarness executes the generated harness of con.
func (e *Exec) runHarness(st *State, con *Contract, args []*smt.Term, apply bool, pos token.Pos) {
	pkg := e.W.Pkgs[con.Pkg]
	if pkg == nil {
		unsupported("package %s of contract not loaded", con.Pkg)
	}
	hf := pkg.Func(con.HarnessName)
	if hf == nil {
		unsupported("harness %s missing", con.HarnessName)
	}
	h := &hctx{con: con, apply: apply, callPos: pos, frame: &frameSpec{owner: con.Display()}}
	e.hstack = append(e.hstack, h)
	e.spec++
	// harness code never writes to the caller-visible heap itself; barrier for frame checks
	_, out := e.runFunc(hf, args, nil, st, nil)
	e.spec--
	e.hstack = e.hstack[:len(e.hstack)-1]
	*st = *out
	// ghost counters the caller's frame does not list must come out unchanged
	for _, pg := range h.pendingGhost {
		saveSpec := e.spec
		e.spec = 0
		cur := e.ghostInt(st, pg.key[2:])
		e.check(st, "frame", smt.Eq(cur, pg.old), pos, "")
		e.spec = saveSpec
	}
}

func (e *Exec) applyContract(st *State, con *Contract, args []*smt.Term, resType types.Type, pos token.Pos) *smt.Term {
	// non-nil receivers / pointer params are part of the precondition
	pkg := e.W.Pkgs[con.Pkg]
	hf := pkg.Func(con.HarnessName)
	if hf == nil {
		unsupported("harness %s missing", con.HarnessName)
	}
	saveSpec := e.spec
	e.spec = 0
	for i, p := range hf.Params {
		if con.MaybeNil[p.Name()] {
			continue
		}
		if _, ok := p.Type().Underlying().(*types.Pointer); ok {
			e.check(st, "pre", smt.Neq(args[i], NilAddr), pos, "")
		}
	}
	e.spec = saveSpec
	saveLR := e.lastResult
	e.lastResult = nil
	e.runHarness(st, con, args, true, pos)
	res := e.lastResult
	e.lastResult = saveLR
	if res == nil {
		res = e.freshVal(st, "r", resType)
	}
	return res
}

// ---------------------------------------------------------------------------
// verif_* intrinsics (harness / spec code)

func (e *Exec) curH() *hctx {
	if len(e.hstack) == 0 {
		unsupported("contract-only verif intrinsic used outside a contract harness")
	}
	return e.hstack[len(e.hstack)-1]
}

func clauseLabel(cs []Clause, k int) string {
	if k < len(cs) && cs[k].Label != "" {
		return cs[k].Label
	}
	return fmt.Sprintf("%d", k)
}

func (e *Exec) verifIntrinsic(fr *frame, st *State, name string, fn *ssa.Function, args []*smt.Term, resType types.Type, pos token.Pos) *smt.Term {
	unit := smt.TupleOf()
	switch name {
	case "verif_requires":
		h := e.curH()
		k := int(args[0].Val)
		if h.apply {
			saveSpec := e.spec
			e.spec = 0
			e.inlPath = append(e.inlPath, h.con.Display())
			e.check(st, "pre", args[1], h.callPos, "")
			e.inlPath = e.inlPath[:len(e.inlPath)-1]
			e.spec = saveSpec
		} else {
			st.Assume(args[1])
			if len(e.hstack) == 1 {
				e.learnFacts(args[1])
			}
		}
		_ = k
		return unit
	case "verif_ensures":
		h := e.curH()
		k := int(args[0].Val)
		if h.apply {
			if args[1].HasBound {
				unsupported("free bound variable in ensures")
			}
			st.Reach = smt.And(st.Reach, args[1])
			// case contracts: a callee postcondition assumed on EVERY path (no branch condition pending)
			// may pin further values to constants (e.g. a decoded sub-opcode): learn them for folding
			if len(e.facts) > 0 && e.decideOn() && e.fold(st.Path).IsTrue() {
				e.learnFacts(args[1])
			}
		} else {
			saveSpec := e.spec
			e.spec = 0
			cl := h.con.Ensures[k]
			p := token.NoPos
			n0 := len(e.Obls)
			var paths []*smt.Term
			if smt.HasQuant(args[1]) {
				if d := dnfPaths(st.Path, 48); len(d) >= 2 {
					for _, c := range d {
						paths = append(paths, smt.And(c...))
					}
				}
			}
			var conds []*smt.Term
			if len(paths) < 2 && smt.HasQuant(args[1]) {
				for _, c := range st.Splits {
					if c.Op != "or" && c.Op != "and" {
						conds = append(conds, c)
					}
				}
				if os.Getenv("GOVC_DEBUG_SPLIT") != "" {
					fmt.Fprintf(os.Stderr, "split %s: %d atoms of %d\n", h.con.Display(), len(conds), len(st.Splits))
				}
				if len(conds) > 6 {
					conds = nil
				}
			}
			if len(paths) >= 2 {
				e.checkPerReturn(st, "post", args[1], clauseLabel(h.con.Ensures, k), paths)
			} else if len(conds) >= 1 {
				e.checkCaseSplit(st, "post", args[1], clauseLabel(h.con.Ensures, k), conds)
			} else {
				e.check(st, "post", args[1], p, clauseLabel(h.con.Ensures, k))
			}
			for i := n0; i < len(e.Obls); i++ {
				e.Obls[i].Text = cl.Expr
				e.Obls[i].Pos = fmt.Sprintf("%s:%d", strings.TrimPrefix(cl.File, "/repo/"), cl.Line)
			}
			e.spec = saveSpec
		}
		return unit
	case "verif_may_panic":
		h := e.curH()
		h.mayPanic = append(h.mayPanic, args[1])
		return unit
	case "verif_target":
		e.curH().atTarget = true
		return unit
	case "verif_modifies_ghost":
		h := e.curH()
		h.hasMod = true
		h.frame.locs = append(h.frame.locs, frameLoc{"G|" + args[0].Name, NilAddr})
		return unit
	case "verif_modifies_ghostflag":
		h := e.curH()
		h.hasMod = true
		key := "GH|" + args[0].Name
		e.heapSort[key] = smt.Array(AddrS, smt.Bool)
		h.frame.locs = append(h.frame.locs, frameLoc{key, IVal(args[1])})
		return unit
	case "verif_ghost_flag":
		key := "GH|" + args[0].Name
		hs := smt.Array(AddrS, smt.Bool)
		return smt.Select(e.heap(st, key, hs), IVal(args[1]))
	case "verif_field_int", "verif_field_len":
		// ghost access to an unexported field of a struct of another package: (pointer, field name)
		pa := c0Arg(fr, 0)
		if pa == nil {
			unsupported("verif_field: argument is not a pointer boxed into an interface")
		}
		pt, ok := pa.Type().Underlying().(*types.Pointer)
		if !ok {
			unsupported("verif_field: not a pointer")
		}
		stt, ok := pt.Elem().Underlying().(*types.Struct)
		if !ok {
			unsupported("verif_field: not a struct pointer")
		}
		for i := 0; i < stt.NumFields(); i++ {
			if stt.Field(i).Name() == args[1].Name {
				v := e.load(st, Fld(IVal(args[0]), e.W.FieldID(pt.Elem(), i)), stt.Field(i).Type())
				if name == "verif_field_len" {
					return SLen(v)
				}
				if w, signed, ok := intInfo(stt.Field(i).Type()); ok && w < 64 {
					if signed {
						return smt.SignExt(v, 64)
					}
					return smt.ZeroExt(v, 64)
				}
				return v
			}
		}
		unsupported("verif_field: no field %s", args[1].Name)
		return nil
	case "verif_uf_u64":
		return smt.App("uf|"+args[0].Name, BV64, IVal(args[1]))
	case "verif_ghost_int":
		return e.ghostInt(st, args[0].Name)
	case "verif_record":
		// history ghost: at a call site the variable takes the value the expression has when the callee
		// returns; while the callee itself is verified the clause is bookkeeping only
		if h := e.curH(); h.apply {
			e.ghostInt(st, args[0].Name)
			if e.ghostFrameRestricted("G|" + args[0].Name) {
				// the caller's frame does not list this history ghost
				saveSpec := e.spec
				e.spec = 0
				e.check(st, "frame", smt.False, h.callPos, "")
				e.spec = saveSpec
			}
			st.Ghost["G|"+args[0].Name] = args[1]
			if e.disc != nil {
				e.disc.ghost["G|"+args[0].Name] = true
			}
		}
		return unit
	case "verif_ghost_map":
		return smt.Select(e.ghostInt(st, args[0].Name), args[1])
	case "verif_ghost_map_old":
		// the entry value of the map at a key computed in the current state
		snap := e.snapshotFor(fr)
		if snap == nil {
			unsupported("verif_ghost_map_old without a snapshot")
		}
		return smt.Select(e.ghostInt(snap, args[0].Name), args[1])
	case "verif_ghost_map_kept":
		// every key set (non-zero) in map `mark` at entry still has its entry value in map `other`
		snap := e.snapshotFor(fr)
		if snap == nil {
			unsupported("verif_ghost_map_kept without a snapshot")
		}
		e.boundCtr++
		k := smt.BoundVar(fmt.Sprintf("q!%d", e.boundCtr), BV64)
		om, oo, co := e.ghostInt(snap, args[0].Name), e.ghostInt(snap, args[1].Name), e.ghostInt(st, args[1].Name)
		return smt.Forall([]*smt.Term{k}, smt.Or(smt.Eq(smt.Select(om, k), smt.Const(64, 0)), smt.Eq(smt.Select(co, k), smt.Select(oo, k))))
	case "verif_ghost_map_upd":
		// the map now == the map at entry with [k] := v if c (every other key unchanged)
		snap := e.snapshotFor(fr)
		if snap == nil {
			unsupported("verif_ghost_map_upd without a snapshot")
		}
		old := e.ghostInt(snap, args[0].Name)
		return smt.Eq(e.ghostInt(st, args[0].Name), smt.Store(old, args[1], smt.Ite(args[2], args[3], smt.Select(old, args[1]))))
	case "verif_modifies_all":
		h := e.curH()
		h.hasMod = true
		h.frame.all = true
		return unit
	case "verif_modifies":
		h := e.curH()
		h.hasMod = true
		a := args[0]
		pt := fn.Params[0].Type().Underlying().(*types.Pointer).Elem()
		e.addFrameLocs(h.frame, a, pt)
		return unit
	case "verif_modifies_elems":
		h := e.curH()
		h.hasMod = true
		et := fn.Params[0].Type().Underlying().(*types.Slice).Elem()
		if _, isStruct := et.Underlying().(*types.Struct); isStruct {
			// every field of every element of the backing array (spare capacity included)
			arr := SArr(args[0])
			elemsType[arr] = et
			h.frame.locs = append(h.frame.locs, frameLoc{"@elems", arr})
			return unit
		}
		if isAggregate(et) {
			unsupported("modifies elems() of aggregate element type")
		}
		e.heapSort[elemKey(et)] = smt.Array(AddrS, smt.Array(BV64, e.W.SortOf(et)))
		h.frame.locs = append(h.frame.locs, frameLoc{elemKey(et), SArr(args[0])})
		return unit
	case "verif_modifies_map":
		h := e.curH()
		h.hasMod = true
		mt := fn.Params[0].Type().Underlying().(*types.Map)
		hk, hs, vk, vs := e.mapHeaps(mt)
		e.heapSort[hk] = hs
		e.heapSort[vk] = vs
		h.frame.locs = append(h.frame.locs, frameLoc{hk, args[0]}, frameLoc{vk, args[0]})
		return unit
	case "verif_alloc_bound":
		e.curH().allocBound = args[0]
		return unit
	case "verif_callees_preserve":
		h := e.curH()
		pt := fn.Params[0].Type().Underlying().(*types.Pointer).Elem()
		tmp := &frameSpec{}
		e.addFrameLocs(tmp, args[0], pt)
		h.calleeKeep = append(h.calleeKeep, tmp.locs...)
		e.W.Note("assumed: callees without a contract called from " + h.con.Display() + " do not write the locations listed in its callees-preserve clause")
		return unit
	case "verif_preserves_map":
		h := e.curH()
		mt := fn.Params[0].Type().Underlying().(*types.Map)
		hk, hs, vk, vs := e.mapHeaps(mt)
		e.heapSort[hk] = hs
		e.heapSort[vk] = vs
		h.frame.deny = append(h.frame.deny, frameLoc{hk, args[0]}, frameLoc{vk, args[0]})
		return unit
	case "verif_preserves", "verif_preserves_obj":
		h := e.curH()
		pt := fn.Params[0].Type().Underlying().(*types.Pointer).Elem()
		tmp := &frameSpec{}
		e.addFrameLocs(tmp, args[0], pt)
		h.frame.deny = append(h.frame.deny, tmp.locs...)
		return unit
	case "verif_modifies_obj":
		h := e.curH()
		h.hasMod = true
		if args[0] == NilAddr {
			return unit
		}
		pt := fn.Params[0].Type().Underlying().(*types.Pointer).Elem()
		e.addFrameLocs(h.frame, args[0], pt)
		return unit
	case "verif_old":
		snap := e.snapshotFor(fr)
		if snap == nil {
			unsupported("old() without a snapshot")
		}
		tmp := snap.Clone()
		tmp.Reach = st.Reach
		for k, v := range st.Cells {
			tmp.Cells[k] = v
		}
		tmp.OldCur = st
		tmp.OldAlloc = snap.Alloc
		res := e.callClosure(tmp, args[0], nil)
		return res
	case "verif_forall", "verif_exists":
		e.boundCtr++
		pt := fn.Params[0].Type().Underlying().(*types.Signature).Params().At(0).Type()
		b := smt.BoundVar(fmt.Sprintf("q!%d", e.boundCtr), e.W.SortOf(pt))
		tmp := st.Clone()
		e.inQuant++
		body := e.callClosure(tmp, args[0], []*smt.Term{b})
		e.inQuant--
		if name == "verif_forall" {
			return smt.Forall([]*smt.Term{b}, body)
		}
		return smt.Exists([]*smt.Term{b}, body)
	case "verif_fresh":
		snap := e.snapshotFor(fr)
		return isFresh(args[0], snap.Alloc)
	case "verif_fresh_map":
		snap := e.snapshotFor(fr)
		return isFresh(args[0], snap.Alloc)
	case "verif_fresh_slice":
		snap := e.snapshotFor(fr)
		return smt.Or(isFresh(SArr(args[0]), snap.Alloc), smt.Eq(SArr(args[0]), NilAddr))
	case "verif_eq":
		return smt.Eq(args[0], args[1])
	case "verif_same_array":
		return smt.Eq(SArr(args[0]), SArr(args[1]))
	case "verif_slice_at":
		// a aliases b starting at element offset off: same array, a.off == b.off+off
		return smt.And(smt.Eq(SArr(args[0]), SArr(args[1])), smt.Eq(SOff(args[0]), smt.BVAdd(SOff(args[1]), args[2])))
	case "verif_slice_off":
		return SOff(args[0])
	case "verif_assume":
		st.Assume(args[0])
		return unit
	case "verif_assert":
		saveSpec := e.spec
		e.spec = 0
		e.check(st, "assert", args[0], pos, "")
		e.spec = saveSpec
		return unit
	case "verif_ghost_get":
		k := args[0].Name
		if v, ok := st.Ghost[k]; ok {
			return v
		}
		return e.W.Zero(resType)
	case "verif_ghost_set":
		st.Ghost[args[0].Name] = args[1]
		if e.disc != nil {
			e.disc.ghost[args[0].Name] = true
		}
		return unit
	case "verif_result":
		e.lastResult = args[0]
		return unit
	}
	if h, ok := verifExtra[name]; ok {
		return h(e, fr, st, fn, args, resType, pos)
	}
	unsupported("unknown verif intrinsic %s", name)
	return nil
}

var verifExtra = map[string]func(e *Exec, fr *frame, st *State, fn *ssa.Function, args []*smt.Term, resType types.Type, pos token.Pos) *smt.Term{}

func (e *Exec) snapshotFor(fr *frame) *State {
	// nearest harness snapshot, else the entry snapshot of the nearest contract-bearing frame
	fn := fr.fn
	if strings.Contains(fn.Name(), "verif_I_") || (fn.Parent() != nil && strings.Contains(fn.Parent().Name(), "verif_I_")) {
		for i := len(e.frames) - 1; i >= 0; i-- {
			if e.frames[i].con != nil {
				return e.frames[i].entrySnap
			}
		}
	}
	for i := len(e.hstack) - 1; i >= 0; i-- {
		if e.hstack[i].snap != nil {
			return e.hstack[i].snap
		}
	}
	for i := len(e.frames) - 1; i >= 0; i-- {
		if e.frames[i].con != nil {
			return e.frames[i].entrySnap
		}
	}
	return nil
}

func (e *Exec) callClosure(st *State, cl *smt.Term, args []*smt.Term) *smt.Term {
	if cl.Op != "closure" {
		unsupported("spec closure is not a literal")
	}
	fn, ok := cl.Aux.(*ssa.Function)
	if !ok {
		unsupported("spec closure is not a function")
	}
	e.spec++
	defer func() { e.spec-- }()
	res, _ := e.inlineCall(st, fn, args, cl.Args, nil)
	return res
}

// addFrameLocs registers the location(s) at address a holding a value of type t.
func (e *Exec) addFrameLocs(fs *frameSpec, a *smt.Term, t types.Type) {
	switch u := t.Underlying().(type) {
	case *types.Struct:
		for i := 0; i < u.NumFields(); i++ {
			e.addFrameLocs(fs, Fld(a, e.W.FieldID(t, i)), u.Field(i).Type())
		}
		return
	case *types.Array:
		if !isAggregate(u.Elem()) {
			e.heapSort[elemKey(u.Elem())] = smt.Array(AddrS, smt.Array(BV64, e.W.SortOf(u.Elem())))
			fs.locs = append(fs.locs, frameLoc{elemKey(u.Elem()), a})
			return
		}
		unsupported("modifies of array-of-aggregate")
	}
	s := e.W.SortOf(t)
	switch {
	case e.isCtor(a, "fld") && a.Args[1].IsConst():
		fid := int(a.Args[1].Val)
		e.heapSort[e.W.fieldInfo[fid].key] = e.fieldHeapSort(fid)
		fs.locs = append(fs.locs, frameLoc{e.W.fieldInfo[fid].key, a.Args[0]})
	case e.isCtor(a, "elm"):
		// a single element: approximate by the whole backing array
		e.heapSort[elemKey(t)] = smt.Array(AddrS, smt.Array(BV64, s))
		fs.locs = append(fs.locs, frameLoc{elemKey(t), a.Args[0]})
	default:
		e.heapSort[cellKey(t)] = smt.Array(AddrS, s)
		fs.locs = append(fs.locs, frameLoc{cellKey(t), a})
	}
}

// havocStructHeaps forgets the fields of the elements of backing array arr (struct type t, recursively for
// embedded structs/arrays): each field heap is replaced by a fresh one that agrees with the old heap at every
// address outside arr - stated lazily, as an axiom instance per address that is later read (partialAxioms).
func (e *Exec) havocStructHeaps(st *State, t types.Type, arr *smt.Term) {
	if e.partial == nil {
		e.partial = map[*smt.Term]partialRec{}
	}
	switch u := t.Underlying().(type) {
	case *types.Struct:
		for i := 0; i < u.NumFields(); i++ {
			ft := u.Field(i).Type()
			if isAggregate(ft) {
				e.havocStructHeaps(st, ft, arr)
				continue
			}
			fid := e.W.FieldID(t, i)
			k := e.W.fieldInfo[fid].key
			hs := e.fieldHeapSort(fid)
			e.heapSort[k] = hs
			old := e.heap(st, k, hs)
			nv := e.fresh("L|"+k, hs)
			e.partial[nv] = partialRec{old, arr}
			st.Heaps[k] = nv
		}
	case *types.Array:
		if isAggregate(u.Elem()) {
			e.havocStructHeaps(st, u.Elem(), arr)
			return
		}
		k := elemKey(u.Elem())
		hs := smt.Array(AddrS, smt.Array(BV64, e.W.SortOf(u.Elem())))
		e.heapSort[k] = hs
		st.Heaps[k] = e.fresh("L|"+k, hs)
	}
}

type partialRec struct {
	old, arr *smt.Term
}

// inArray: address p (an index of a field heap) lies inside backing array arr: p = elm(arr, _) or a field
// path below such an element.
func inArray(p, arr *smt.Term) *smt.Term {
	for p.Op == "ctor" && p.Name == "fld" {
		p = p.Args[0]
	}
	if p.Op == "ctor" {
		if p.Name == "elm" {
			return smt.Eq(p.Args[0], arr)
		}
		return smt.False
	}
	// a pointer value of unknown shape: decided by the solver on the datatype
	return smt.And(smt.Is("elm", p), smt.Eq(smt.Sel(AddrS, "elm", 0, p), arr))
}

// partialAxioms: reading heap term h at address p - for every partially forgotten heap underneath, the
// value outside the forgotten array is the old one.
func (e *Exec) partialAxioms(h, p *smt.Term) {
	if len(e.partial) == 0 {
		return
	}
	for depth := 0; depth < 64; depth++ {
		switch h.Op {
		case "store":
			h = h.Args[0]
			continue
		case "ite":
			e.partialAxioms(h.Args[1], p)
			h = h.Args[2]
			continue
		}
		r, ok := e.partial[h]
		if !ok {
			return
		}
		e.Axiom(smt.Or(inArray(p, r.arr), smt.Eq(smt.Select(h, p), smt.Select(r.old, p))))
		h = r.old
	}
}

// elemBase: the backing array an address lies in (syntactic: fld(...elm(arr, i)...)), or nil.
func elemBase(a *smt.Term) *smt.Term {
	for a != nil && a.Op == "ctor" {
		switch a.Name {
		case "fld":
			a = a.Args[0]
		case "elm":
			return a.Args[0]
		default:
			return nil
		}
	}
	return nil
}

func (e *Exec) ghostInt(st *State, name string) *smt.Term {
	if e.ghostNames == nil {
		e.ghostNames = map[string]bool{}
	}
	e.ghostNames[name] = true
	if v, ok := st.Ghost["G|"+name]; ok {
		return v
	}
	if st.Epoch > 0 {
		return smt.Var(fmt.Sprintf("g@%d|%s", st.Epoch, name), ghostSort(name))
	}
	return smt.Var("g0|"+name, ghostSort(name))
}

// ghostSort: ghost variables are 64-bit counters/registers; a name starting with "M:" is a ghost map
// from 64-bit keys to 64-bit values (verif_ghost_map / verif_ghost_map_upd).
func ghostSort(name string) *smt.Sort {
	if strings.HasPrefix(name, "M:") {
		return smt.Array(BV64, BV64)
	}
	return BV64
}

// ghostFrameRestricted: some active frame does not list the ghost variable.
func (e *Exec) ghostFrameRestricted(key string) bool {
	for i := len(e.fstack) - 1; i >= 0; i-- {
		fs := e.fstack[i]
		if fs == nil {
			return false
		}
		if fs.all {
			continue
		}
		ok := false
		for _, l := range fs.locs {
			if l.key == key || (l.key == "G|*" && !strings.HasPrefix(key, "G|H:")) {
				ok = true
			}
		}
		if !ok {
			return true
		}
	}
	return false
}

// baseTypeName: the named type inside pointers, as printed in heap keys.
func baseTypeName(t types.Type) string {
	for {
		if p, ok := t.(*types.Pointer); ok {
			t = p.Elem()
			continue
		}
		break
	}
	return types.TypeString(t, nil)
}

func (e *Exec) assumeAllocatedVal(st *State, v *smt.Term, t types.Type) {
	if tup, ok := t.(*types.Tuple); ok {
		if v.Op == "tuple" {
			for i := 0; i < tup.Len(); i++ {
				e.assumeAllocatedVal(st, v.Args[i], tup.At(i).Type())
			}
		}
		return
	}
	e.assumeAllocated(st, v, t)
}

// c0Arg: the value boxed into the interface passed as argument i of the current call (if the
// argument is a MakeInterface instruction).
func c0Arg(fr *frame, i int) ssa.Value {
	return fr.curCallArg0
}
