package engine

import (
	"fmt"
	"go/token"
	"go/types"
	"strings"

	"govc/smt"

	"golang.org/x/tools/go/ssa"
)

type intrinsicFn func(e *Exec, st *State, fn *ssa.Function, args []*smt.Term, resType types.Type, pos token.Pos) *smt.Term

var intrinsics = map[string]intrinsicFn{}

type ifaceIntrinsicFn func(e *Exec, st *State, recv *smt.Term, args []*smt.Term, resType types.Type, pos token.Pos) *smt.Term

var ifaceIntrinsics = map[string]ifaceIntrinsicFn{}

func unitT() *smt.Term { return smt.TupleOf() }

func ptrElem(fn *ssa.Function, i int) types.Type {
	return fn.Signature.Params().At(i).Type().Underlying().(*types.Pointer).Elem()
}

func init() {
	nop := func(e *Exec, st *State, fn *ssa.Function, args []*smt.Term, resType types.Type, pos token.Pos) *smt.Term {
		return unitT()
	}
	for _, n := range []string{
		"(*sync.Mutex).Lock", "(*sync.Mutex).Unlock", "(*sync.RWMutex).Lock", "(*sync.RWMutex).Unlock",
		"(*sync.RWMutex).RLock", "(*sync.RWMutex).RUnlock", "runtime.KeepAlive", "runtime.GC", "runtime.Gosched",
		"(*sync.WaitGroup).Add", "(*sync.WaitGroup).Done",
	} {
		intrinsics[n] = nop
	}
	// lock bookkeeping as ghost state (used by `lock` obligations)
	lockOp := func(held bool, rw string) intrinsicFn {
		return func(e *Exec, st *State, fn *ssa.Function, args []*smt.Term, resType types.Type, pos token.Pos) *smt.Term {
			k := fmt.Sprintf("lock|%d", args[0].ID)
			st.Ghost[k] = smt.BoolConst(held)
			if e.disc != nil {
				e.disc.ghost[k] = true
			}
			return unitT()
		}
	}
	intrinsics["(*sync.Mutex).Lock"] = lockOp(true, "")
	intrinsics["(*sync.Mutex).Unlock"] = lockOp(false, "")
	intrinsics["(*sync.RWMutex).Lock"] = lockOp(true, "")
	intrinsics["(*sync.RWMutex).Unlock"] = lockOp(false, "")
	intrinsics["(*sync.RWMutex).RLock"] = lockOp(true, "r")
	intrinsics["(*sync.RWMutex).RUnlock"] = lockOp(false, "r")

	// sync/atomic free functions: sequential semantics on the addressed cell
	for _, ty := range []string{"Uint32", "Uint64", "Int32", "Int64", "Uintptr", "Pointer"} {
		intrinsics["sync/atomic.Load"+ty] = func(e *Exec, st *State, fn *ssa.Function, args []*smt.Term, resType types.Type, pos token.Pos) *smt.Term {
			e.safety(st, "nil", smt.Neq(args[0], NilAddr), pos)
			return e.load(st, args[0], ptrElem(fn, 0))
		}
		intrinsics["sync/atomic.Store"+ty] = func(e *Exec, st *State, fn *ssa.Function, args []*smt.Term, resType types.Type, pos token.Pos) *smt.Term {
			e.safety(st, "nil", smt.Neq(args[0], NilAddr), pos)
			e.store(st, args[0], ptrElem(fn, 0), args[1], pos)
			return unitT()
		}
		intrinsics["sync/atomic.Add"+ty] = func(e *Exec, st *State, fn *ssa.Function, args []*smt.Term, resType types.Type, pos token.Pos) *smt.Term {
			e.safety(st, "nil", smt.Neq(args[0], NilAddr), pos)
			t := ptrElem(fn, 0)
			nv := smt.BVAdd(e.load(st, args[0], t), args[1])
			e.store(st, args[0], t, nv, pos)
			return nv
		}
		intrinsics["sync/atomic.Swap"+ty] = func(e *Exec, st *State, fn *ssa.Function, args []*smt.Term, resType types.Type, pos token.Pos) *smt.Term {
			t := ptrElem(fn, 0)
			old := e.load(st, args[0], t)
			e.store(st, args[0], t, args[1], pos)
			return old
		}
		intrinsics["sync/atomic.CompareAndSwap"+ty] = func(e *Exec, st *State, fn *ssa.Function, args []*smt.Term, resType types.Type, pos token.Pos) *smt.Term {
			e.safety(st, "nil", smt.Neq(args[0], NilAddr), pos)
			t := ptrElem(fn, 0)
			cur := e.load(st, args[0], t)
			ok := smt.Eq(cur, args[1])
			e.storeCond(st, ok, args[0], t, args[2], pos)
			return ok
		}
	}
	// math bit casts
	id := func(e *Exec, st *State, fn *ssa.Function, args []*smt.Term, resType types.Type, pos token.Pos) *smt.Term {
		return args[0]
	}
	for _, n := range []string{"math.Float32bits", "math.Float32frombits", "math.Float64bits", "math.Float64frombits"} {
		intrinsics[n] = id
	}
	// math/bits
	intrinsics["math/bits.TrailingZeros64"] = func(e *Exec, st *State, fn *ssa.Function, args []*smt.Term, resType types.Type, pos token.Pos) *smt.Term {
		return e.tzAx(args[0], 64)
	}
	intrinsics["math/bits.TrailingZeros32"] = func(e *Exec, st *State, fn *ssa.Function, args []*smt.Term, resType types.Type, pos token.Pos) *smt.Term {
		return e.tzAx(args[0], 32)
	}
	intrinsics["math/bits.LeadingZeros64"] = func(e *Exec, st *State, fn *ssa.Function, args []*smt.Term, resType types.Type, pos token.Pos) *smt.Term {
		return lzN(args[0], 64)
	}
	intrinsics["math/bits.LeadingZeros32"] = func(e *Exec, st *State, fn *ssa.Function, args []*smt.Term, resType types.Type, pos token.Pos) *smt.Term {
		return lzN(args[0], 32)
	}
	intrinsics["math/bits.Len64"] = func(e *Exec, st *State, fn *ssa.Function, args []*smt.Term, resType types.Type, pos token.Pos) *smt.Term {
		return smt.BVSub(smt.Const(64, 64), lzN(args[0], 64))
	}
	intrinsics["math/bits.Len32"] = func(e *Exec, st *State, fn *ssa.Function, args []*smt.Term, resType types.Type, pos token.Pos) *smt.Term {
		return smt.BVSub(smt.Const(64, 32), lzN(args[0], 32))
	}
	pop := func(w int) intrinsicFn {
		return func(e *Exec, st *State, fn *ssa.Function, args []*smt.Term, resType types.Type, pos token.Pos) *smt.Term {
			if args[0].IsConst() {
				return smt.Const(64, uint64(smt.OnesCount64(args[0].Val)))
			}
			sum := smt.Const(64, 0)
			for i := 0; i < w; i++ {
				sum = smt.BVAdd(sum, smt.ZeroExt(smt.Extract(args[0], i, i), 64))
			}
			return sum
		}
	}
	intrinsics["math/bits.OnesCount64"] = pop(64)
	intrinsics["math/bits.OnesCount32"] = pop(32)
	intrinsics["math/bits.OnesCount8"] = pop(8)
	rot := func(w int) intrinsicFn {
		return func(e *Exec, st *State, fn *ssa.Function, args []*smt.Term, resType types.Type, pos token.Pos) *smt.Term {
			// k is int (64-bit); rotate left by k mod w
			k := smt.Extract(smt.BVAnd(args[1], smt.Const(64, uint64(w-1))), w-1, 0)
			return smt.BVOr(smt.BVShl(args[0], k), smt.BVLshr(args[0], smt.BVAnd(smt.BVSub(smt.Const(w, uint64(w)), k), smt.Const(w, uint64(w-1)))))
		}
	}
	_ = rot
	intrinsics["math/bits.RotateLeft32"] = func(e *Exec, st *State, fn *ssa.Function, args []*smt.Term, resType types.Type, pos token.Pos) *smt.Term {
		k := smt.Extract(args[1], 31, 0)
		return smt.Raw("ext_rotate_left", BV32, args[0], k) // printed specially
	}
	delete(intrinsics, "math/bits.RotateLeft32")

	// pure externals returning fresh, non-nil errors / strings
	errNew := func(e *Exec, st *State, fn *ssa.Function, args []*smt.Term, resType types.Type, pos token.Pos) *smt.Term {
		p := e.newObj(st)
		return MkIface(smt.Const(32, uint64(e.W.TypeID(types.NewPointer(types.Universe.Lookup("error").Type())))), p)
	}
	// errors.Is: a deterministic (uninterpreted) relation on error values; error chains are immutable
	intrinsics["errors.Is"] = func(e *Exec, st *State, fn *ssa.Function, args []*smt.Term, resType types.Type, pos token.Pos) *smt.Term {
		return smt.App("ext|errors.Is", smt.Bool, args[0], args[1])
	}
	intrinsics["errors.New"] = errNew
	intrinsics["fmt.Errorf"] = errNew
}

func tzN(x *smt.Term, w int) *smt.Term {
	if x.IsConst() {
		if x.Val == 0 {
			return smt.Const(64, uint64(w))
		}
		return smt.Const(64, uint64(smt.TrailingZeros64(x.Val)))
	}
	r := smt.Const(64, uint64(w))
	for i := w - 1; i >= 0; i-- {
		r = smt.Ite(smt.Eq(smt.Extract(x, i, i), smt.Const(1, 1)), smt.Const(64, uint64(i)), r)
	}
	return r
}

func lzN(x *smt.Term, w int) *smt.Term {
	r := smt.Const(64, uint64(w))
	for i := 0; i < w; i++ {
		r = smt.Ite(smt.Eq(smt.Extract(x, i, i), smt.Const(1, 1)), smt.Const(64, uint64(w-1-i)), r)
	}
	return r
}

// pureExternal: stdlib functions modelled as side-effect free with an unconstrained result.
func pureExternal(name string) bool {
	for _, p := range []string{"strings.", "strconv.", "fmt.Sprint", "fmt.Sprintf", "unicode/utf8.", "unicode.", "path.", "path/filepath.",
		"errors.Is", "errors.As", "errors.Unwrap", "(*strings.Builder)", "bytes.Equal", "bytes.Compare", "bytes.IndexByte", "bytes.HasPrefix",
		"context.Background", "context.TODO", "context.WithValue", "(context.", "(*context.", "time.Duration", "(time.Duration)", "(time.Time)", "time.Unix", "io/fs.FileMode", "(io/fs.FileMode)", "math.", "sort.Search",
		"(reflect.Type)", "reflect.TypeOf", "math/rand.", "(*math/rand.", "hash/crc32.", "crypto/sha256.Sum256", "encoding/hex.", "os.IsNotExist", "(*errors.", "(*fmt.wrapError)",
		"internal/", "syscall.Errno", "(syscall.Errno)", "runtime.Caller", "runtime.FuncForPC", "runtime/debug.Stack", "(*runtime.Func)",
	} {
		if strings.HasPrefix(name, p) {
			return true
		}
	}
	return false
}

// stdInline: stdlib functions whose Go bodies are executed (they only touch their arguments).
func stdInline(name string) bool {
	for _, p := range []string{"encoding/binary.littleEndian", "encoding/binary.bigEndian", "(encoding/binary.littleEndian)", "(encoding/binary.bigEndian)",
		"(*sync/atomic.", "math/bits.RotateLeft", "math/bits.Reverse", "math/bits.Add64", "math/bits.Sub64", "math/bits.Mul64",
		"(*sync.Once).Do", "sort.Slice", "(time.Duration).", "(*bytes.Reader).", "slices.Grow", "slices.Clone", "slices.Contains", "slices.Index", "unicode/utf8.RuneLen", "unicode/utf8.ValidRune",
	} {
		if strings.HasPrefix(name, p) {
			return true
		}
	}
	return false
}

// tzAx: trailing-zero count as an uninterpreted function fully characterised by axiom instances:
// tz(0)=w; x!=0 => tz<w, bit tz of x is set, all lower bits are clear.
func (e *Exec) tzAx(x *smt.Term, w int) *smt.Term {
	if x.IsConst() || x.HasBound {
		return tzN(x, w)
	}
	r := smt.App(fmt.Sprintf("tz%d", w), BV64, x)
	rw := smt.Extract(r, w-1, 0)
	if w > 64 {
		rw = smt.ZeroExt(r, w)
	}
	zero := smt.Const(w, 0)
	one := smt.Const(w, 1)
	e.Axiom(smt.BVUle(r, smt.Const(64, uint64(w))))
	e.Axiom(smt.Eq(smt.Eq(x, zero), smt.Eq(r, smt.Const(64, uint64(w)))))
	e.Axiom(smt.Implies(smt.Neq(x, zero), smt.And(
		smt.Eq(smt.BVAnd(smt.BVLshr(x, rw), one), one),
		smt.Eq(smt.BVAnd(x, smt.BVSub(smt.BVShl(one, rw), one)), zero))))
	return r
}
