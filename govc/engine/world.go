// Package engine: VC generation over go/ssa (naive form) by guarded-merge symbolic execution.
package engine

import (
	"fmt"
	"regexp"
	"go/token"
	"go/types"
	"os"
	"sort"
	"strings"

	"govc/smt"

	"golang.org/x/tools/go/packages"
	"golang.org/x/tools/go/ssa"
	"golang.org/x/tools/go/ssa/ssautil"
)

const ModulePath = "github.com/tetratelabs/wazero"

type World struct {
	Prog  *ssa.Program
	Fset  *token.FileSet
	Pkgs  map[string]*ssa.Package
	PPkgs map[string]*packages.Package

	fieldIDs  map[string]int
	fieldInfo []fieldInfo
	typeIDs   map[string]int
	typeByID  []types.Type
	structDT  map[string]*smt.Sort

	Contracts    map[*ssa.Function]*Contract // by target function
	Overlay      map[string][]byte           // contract files with prelude and harnesses (what was analysed)
	Repo         string
	ExtContracts map[*ssa.Function]map[string]*Contract // contracts on functions of other packages, by stating package
	ByOrigin     map[*ssa.Function]*ssa.Function // generic origin -> instantiation that has a contract
	IfaceCons    map[string]*Contract        // by "pkg.Iface.Method"
	ContractList []*Contract
	funcsByName  map[string]*ssa.Function
	srcCache     map[string][]string
	Notes        map[string]bool // assumptions / abstractions encountered (for evidence)
	targets      []*ssa.Function
	constGlobals map[*ssa.Global]ssa.Value // package-level vars only assigned once, in init, a function value or constant
	nonNilGlobals map[*ssa.Global]bool    // sentinel values: assigned once, in init, the result of errors.New / fmt.Errorf / a composite
}

type fieldInfo struct {
	key   string // heap key
	owner string
	name  string
	typ   types.Type
}

var (
	AddrS  = mkAddrSort()
	SliceS = mkSliceSort()
	IfaceS = mkIfaceSort()
	StrS   = smt.Unint("Str")
	FuncS  = smt.Unint("Func")
	BV64   = smt.BV(64)
	BV32   = smt.BV(32)
	BV8    = smt.BV(8)
)

func mkAddrSort() *smt.Sort {
	a, _ := smt.DT("Addr")
	a.Ctors = []smt.DTCtor{
		{Name: "nil"},
		{Name: "obj", Fields: []smt.DTField{{Name: "oid", S: smt.BV(64)}}},
		{Name: "fld", Fields: []smt.DTField{{Name: "fpar", S: a}, {Name: "fid", S: smt.BV(32)}}},
		{Name: "elm", Fields: []smt.DTField{{Name: "epar", S: a}, {Name: "eidx", S: smt.BV(64)}}},
	}
	return a
}

func mkSliceSort() *smt.Sort {
	a := mkAddrSort()
	s, _ := smt.DT("Slice")
	s.Ctors = []smt.DTCtor{{Name: "mk-slice", Fields: []smt.DTField{
		{Name: "s-arr", S: a}, {Name: "s-off", S: smt.BV(64)}, {Name: "s-len", S: smt.BV(64)}, {Name: "s-cap", S: smt.BV(64)}}}}
	return s
}

func mkIfaceSort() *smt.Sort {
	a := mkAddrSort()
	s, _ := smt.DT("Iface")
	s.Ctors = []smt.DTCtor{{Name: "mk-iface", Fields: []smt.DTField{
		{Name: "i-typ", S: smt.BV(32)}, {Name: "i-val", S: a}}}}
	return s
}

var (
	NilAddr  = smt.Ctor(AddrS, "nil")
	NilFunc  = smt.Var("fn!nil", FuncS)
	EmptyStr = smt.StrLit(StrS, "")
)

func Obj(id *smt.Term) *smt.Term { return smt.Ctor(AddrS, "obj", id) }
func Fld(p *smt.Term, fid int) *smt.Term {
	return smt.Ctor(AddrS, "fld", p, smt.Const(32, uint64(fid)))
}
func Elm(p, i *smt.Term) *smt.Term { return smt.Ctor(AddrS, "elm", p, i) }
func Oid(a *smt.Term) *smt.Term   { return smt.Sel(AddrS, "obj", 0, a) }

func MkSlice(arr, off, ln, cp *smt.Term) *smt.Term {
	return smt.Ctor(SliceS, "mk-slice", arr, off, ln, cp)
}
func SArr(s *smt.Term) *smt.Term { return smt.Sel(SliceS, "mk-slice", 0, s) }
func SOff(s *smt.Term) *smt.Term { return smt.Sel(SliceS, "mk-slice", 1, s) }
func SLen(s *smt.Term) *smt.Term { return smt.Sel(SliceS, "mk-slice", 2, s) }
func SCap(s *smt.Term) *smt.Term { return smt.Sel(SliceS, "mk-slice", 3, s) }

var NilSlice = MkSlice(NilAddr, smt.Const(64, 0), smt.Const(64, 0), smt.Const(64, 0))

func MkIface(typ, val *smt.Term) *smt.Term { return smt.Ctor(IfaceS, "mk-iface", typ, val) }
func ITyp(i *smt.Term) *smt.Term           { return smt.Sel(IfaceS, "mk-iface", 0, i) }
func IVal(i *smt.Term) *smt.Term           { return smt.Sel(IfaceS, "mk-iface", 1, i) }

var NilIface = MkIface(smt.Const(32, 0), NilAddr)

type Unsupported struct{ Msg string }

func (u Unsupported) Error() string { return "unsupported: " + u.Msg }

func unsupported(f string, a ...interface{}) { panic(Unsupported{fmt.Sprintf(f, a...)}) }

// Load loads the given package patterns from dir with the contract overlay applied.
func Load(dir string, patterns []string, overlay map[string][]byte) (*World, error) {
	cfg := &packages.Config{
		Mode:       packages.LoadAllSyntax,
		Dir:        dir,
		BuildFlags: []string{"-tags=verif"},
		Overlay:    overlay,
		Env:        append(os.Environ(), "GOFLAGS=-mod=mod", "GOPROXY=off", "GOSUMDB=off", "GOTOOLCHAIN=local"),
	}
	pkgs, err := packages.Load(cfg, patterns...)
	if err != nil {
		return nil, err
	}
	var errs []string
	packages.Visit(pkgs, nil, func(p *packages.Package) {
		for _, e := range p.Errors {
			errs = append(errs, e.Error())
		}
	})
	if len(errs) > 0 {
		return nil, fmt.Errorf("load errors:\n%s", strings.Join(errs, "\n"))
	}
	prog, _ := ssautil.AllPackages(pkgs, ssa.NaiveForm|ssa.InstantiateGenerics|ssa.GlobalDebug)
	prog.Build()
	w := &World{Prog: prog, Pkgs: map[string]*ssa.Package{}, PPkgs: map[string]*packages.Package{},
		fieldIDs: map[string]int{}, typeIDs: map[string]int{}, structDT: map[string]*smt.Sort{},
		Contracts: map[*ssa.Function]*Contract{}, ExtContracts: map[*ssa.Function]map[string]*Contract{}, ByOrigin: map[*ssa.Function]*ssa.Function{}, IfaceCons: map[string]*Contract{},
		funcsByName: map[string]*ssa.Function{}, srcCache: map[string][]string{}, Notes: map[string]bool{}}
	w.fieldInfo = append(w.fieldInfo, fieldInfo{})
	w.typeByID = append(w.typeByID, nil)
	packages.Visit(pkgs, nil, func(p *packages.Package) {
		w.PPkgs[p.PkgPath] = p
		if w.Fset == nil {
			w.Fset = p.Fset
		}
	})
	for _, p := range prog.AllPackages() {
		w.Pkgs[p.Pkg.Path()] = p
	}
	return w, nil
}

func (w *World) Note(s string) { w.Notes[s] = true }

func (w *World) SortedNotes() []string {
	var out []string
	for k := range w.Notes {
		out = append(out, k)
	}
	sort.Strings(out)
	return out
}

// ---------------------------------------------------------------------------
// sorts

// keySubst rewrites type names while a contract written for one instantiation of a generic
// type is applied to another instantiation (pairs of from/to substrings).
var keySubst [][2]string

var (
	byteRe = regexp.MustCompile(`\bbyte\b`)
	runeRe = regexp.MustCompile(`\brune\b`)
)

func typeName(t types.Type) string {
	s := types.TypeString(t, nil)
	// byte/uint8 and rune/int32 are identical types: one name, one heap
	if strings.Contains(s, "byte") {
		s = byteRe.ReplaceAllString(s, "uint8")
	}
	if strings.Contains(s, "rune") {
		s = runeRe.ReplaceAllString(s, "int32")
	}
	for _, p := range keySubst {
		s = strings.ReplaceAll(s, p[0], p[1])
	}
	return s
}

func (w *World) SortOf(t types.Type) *smt.Sort {
	switch u := t.Underlying().(type) {
	case *types.Basic:
		switch u.Kind() {
		case types.Bool, types.UntypedBool:
			return smt.Bool
		case types.Int8, types.Uint8:
			return BV8
		case types.Int16, types.Uint16:
			return smt.BV(16)
		case types.Int32, types.Uint32, types.Float32, types.UntypedRune:
			return BV32
		case types.Int, types.Uint, types.Int64, types.Uint64, types.Uintptr, types.Float64, types.UntypedInt, types.UntypedFloat:
			return BV64
		case types.String, types.UntypedString:
			return StrS
		case types.UnsafePointer, types.UntypedNil:
			return AddrS
		}
		unsupported("basic type %s", t)
	case *types.Pointer, *types.Map, *types.Chan:
		return AddrS
	case *types.Signature:
		return FuncS
	case *types.Slice:
		return SliceS
	case *types.Interface:
		return IfaceS
	case *types.Array:
		return smt.Array(BV64, w.SortOf(u.Elem()))
	case *types.Struct:
		return w.structSort(t, u)
	case *types.Tuple:
		ss := make([]*smt.Sort, u.Len())
		for i := range ss {
			ss[i] = w.SortOf(u.At(i).Type())
		}
		return smt.Tuple(ss)
	case *types.TypeParam:
		unsupported("type parameter %s", t)
	}
	unsupported("type %s", t)
	return nil
}

func structKey(t types.Type) string {
	if n, ok := t.(*types.Named); ok {
		return typeName(n)
	}
	if a, ok := t.(*types.Alias); ok {
		return structKey(types.Unalias(a))
	}
	return typeName(t.Underlying())
}

func (w *World) structSort(t types.Type, u *types.Struct) *smt.Sort {
	k := structKey(t)
	if s, ok := w.structDT[k]; ok {
		return s
	}
	s, _ := smt.DT("S!" + k)
	w.structDT[k] = s
	c := smt.DTCtor{Name: "mk!" + k}
	for i := 0; i < u.NumFields(); i++ {
		f := u.Field(i)
		c.Fields = append(c.Fields, smt.DTField{Name: fmt.Sprintf("%s!%s", k, f.Name()), S: w.SortOf(f.Type())})
	}
	s.Ctors = []smt.DTCtor{c}
	return s
}

func isAggregate(t types.Type) bool {
	switch t.Underlying().(type) {
	case *types.Struct, *types.Array:
		return true
	}
	return false
}

// FieldID returns the global id of field i of struct type t.
func (w *World) FieldID(t types.Type, i int) int {
	st := t.Underlying().(*types.Struct)
	k := "F|" + structKey(t) + "|" + st.Field(i).Name()
	if id, ok := w.fieldIDs[k]; ok {
		return id
	}
	id := len(w.fieldInfo)
	w.fieldIDs[k] = id
	w.fieldInfo = append(w.fieldInfo, fieldInfo{key: k, owner: structKey(t), name: st.Field(i).Name(), typ: st.Field(i).Type()})
	return id
}

func elemKey(t types.Type) string { return "E|" + typeName(t) }
func cellKey(t types.Type) string { return "C|" + typeName(t) }

// TypeID for interface dynamic types.
func (w *World) TypeID(t types.Type) int {
	k := typeName(t)
	if id, ok := w.typeIDs[k]; ok {
		return id
	}
	id := len(w.typeByID)
	w.typeIDs[k] = id
	w.typeByID = append(w.typeByID, t)
	return id
}

func (w *World) Zero(t types.Type) *smt.Term {
	switch u := t.Underlying().(type) {
	case *types.Basic:
		s := w.SortOf(t)
		switch {
		case s == smt.Bool:
			return smt.False
		case s == StrS:
			return EmptyStr
		case s == AddrS:
			return NilAddr
		}
		return smt.Const(s.W, 0)
	case *types.Pointer, *types.Map, *types.Chan:
		return NilAddr
	case *types.Signature:
		return NilFunc
	case *types.Slice:
		return NilSlice
	case *types.Interface:
		return NilIface
	case *types.Array:
		return smt.ConstArr(w.SortOf(t), w.Zero(u.Elem()))
	case *types.Struct:
		s := w.SortOf(t)
		args := make([]*smt.Term, u.NumFields())
		for i := range args {
			args[i] = w.Zero(u.Field(i).Type())
		}
		return smt.Ctor(s, s.Ctors[0].Name, args...)
	case *types.Tuple:
		args := make([]*smt.Term, u.Len())
		for i := range args {
			args[i] = w.Zero(u.At(i).Type())
		}
		return smt.TupleOf(args...)
	}
	unsupported("zero of %s", t)
	return nil
}

// StructField projects field i from a struct value term.
func (w *World) StructField(v *smt.Term, t types.Type, i int) *smt.Term {
	s := w.SortOf(t)
	return smt.Sel(s, s.Ctors[0].Name, i, v)
}

func (w *World) StructWith(v *smt.Term, t types.Type, i int, nv *smt.Term) *smt.Term {
	s := w.SortOf(t)
	u := t.Underlying().(*types.Struct)
	args := make([]*smt.Term, u.NumFields())
	for j := range args {
		if j == i {
			args[j] = nv
		} else {
			args[j] = smt.Sel(s, s.Ctors[0].Name, j, v)
		}
	}
	return smt.Ctor(s, s.Ctors[0].Name, args...)
}

// FuncByName finds "pkgpath.Func" or "pkgpath.(*T).M" / "pkgpath.T.M".
func (w *World) FuncByName(name string) *ssa.Function {
	if f, ok := w.funcsByName[name]; ok {
		return f
	}
	var found *ssa.Function
	for fn := range ssautil.AllFunctions(w.Prog) {
		if fn.String() == name {
			found = fn
			break
		}
	}
	w.funcsByName[name] = found
	return found
}

func (w *World) SrcLine(pos token.Pos) (string, string) {
	if !pos.IsValid() || w.Fset == nil {
		return "", ""
	}
	p := w.Fset.Position(pos)
	lines, ok := w.srcCache[p.Filename]
	if !ok {
		data, err := os.ReadFile(p.Filename)
		if err == nil {
			lines = strings.Split(string(data), "\n")
		}
		w.srcCache[p.Filename] = lines
	}
	txt := ""
	if p.Line-1 < len(lines) && p.Line > 0 {
		txt = strings.TrimSpace(lines[p.Line-1])
	}
	return fmt.Sprintf("%s:%d", strings.TrimPrefix(p.Filename, "/repo/"), p.Line), txt
}

// ConstGlobal returns the initial (and only) value of a package-level variable that is
// assigned exactly once in the whole program, in its package initialiser, with a function or
// constant; nil otherwise.
func (w *World) ConstGlobal(g *ssa.Global) ssa.Value {
	if w.constGlobals == nil {
		w.constGlobals = map[*ssa.Global]ssa.Value{}
		w.nonNilGlobals = map[*ssa.Global]bool{}
		nonNil := map[*ssa.Global]bool{}
		stores := map[*ssa.Global]int{}
		vals := map[*ssa.Global]ssa.Value{}
		for fn := range ssautil.AllFunctions(w.Prog) {
			for _, b := range fn.Blocks {
				for _, in := range b.Instrs {
					st, ok := in.(*ssa.Store)
					if !ok {
						continue
					}
					gg, ok := st.Addr.(*ssa.Global)
					if !ok {
						continue
					}
					stores[gg]++
					if fn.Name() == "init" && fn.Pkg == gg.Pkg {
						v := st.Val
						if ct, ok := v.(*ssa.ChangeType); ok {
							v = ct.X
						}
						if mi, ok := v.(*ssa.MakeInterface); ok {
							v = mi.X
							if _, isAlloc := v.(*ssa.Alloc); isAlloc {
								nonNil[gg] = true
							}
						}
						if call, ok := v.(*ssa.Call); ok {
							if sc := call.Call.StaticCallee(); sc != nil && (sc.String() == "errors.New" || sc.String() == "fmt.Errorf") {
								nonNil[gg] = true
							}
						}
						switch x := v.(type) {
						case *ssa.Function, *ssa.Const:
							vals[gg] = x
						case *ssa.MakeClosure:
							if len(x.Bindings) == 0 {
								vals[gg] = x.Fn
							}
						}
					}
				}
			}
		}
		for g, n := range stores {
			if n == 1 && vals[g] != nil {
				w.constGlobals[g] = vals[g]
			}
			if n == 1 && nonNil[g] {
				w.nonNilGlobals[g] = true
			}
		}
	}
	return w.constGlobals[g]
}

// NonNilGlobal: a sentinel error variable (set once, at initialisation, to a fresh error value).
func (w *World) NonNilGlobal(g *ssa.Global) bool {
	w.ConstGlobal(g)
	return w.nonNilGlobals[g]
}
