package engine

import (
	"fmt"
	"go/token"
	"go/types"

	"golang.org/x/tools/go/ssa"

	"govc/smt"
)

var (
	FP32 = smt.Builtin("(_ FloatingPoint 8 24)")
	FP64 = smt.Builtin("(_ FloatingPoint 11 53)")
)

func fpSort(w int) *smt.Sort {
	if w == 32 {
		return FP32
	}
	return FP64
}

// ToFP reinterprets a bit pattern as an IEEE value.
func ToFP(bv *smt.Term) *smt.Term {
	if bv.S.W == 32 {
		return smt.Raw("(_ to_fp 8 24)", FP32, bv)
	}
	return smt.Raw("(_ to_fp 11 53)", FP64, bv)
}

var RNE = smt.Raw("RNE", smt.Builtin("RoundingMode"))

func rm(name string) *smt.Term {
	return smt.Var(name, smt.Builtin("RoundingMode"))
}

// fpResult turns an FP-sorted term into a bit pattern: a fresh pattern whose value is the
// term (for NaN any NaN pattern: payloads are left free, a sound over-approximation).
func (e *Exec) fpResult(st *State, fp *smt.Term, w int) *smt.Term {
	if e.inQuant > 0 || fp.HasBound {
		// inside quantified spec code use a function of the value (deterministic payload)
		r := smt.App(fmt.Sprintf("fp2bv%d", w), smt.BV(w), fp)
		return r
	}
	r := e.fresh("fp", smt.BV(w))
	e.Axiom(smt.Eq(ToFP(r), fp))
	return r
}

func (e *Exec) floatBinop(st *State, op token.Token, a, b *smt.Term, t types.Type) *smt.Term {
	w := a.S.W
	fa, fb := ToFP(a), ToFP(b)
	fs := fpSort(w)
	switch op {
	case token.ADD:
		return e.fpResult(st, smt.Raw("fp.add RNE", fs, fa, fb), w)
	case token.SUB:
		return e.fpResult(st, smt.Raw("fp.sub RNE", fs, fa, fb), w)
	case token.MUL:
		return e.fpResult(st, smt.Raw("fp.mul RNE", fs, fa, fb), w)
	case token.QUO:
		return e.fpResult(st, smt.Raw("fp.div RNE", fs, fa, fb), w)
	case token.EQL:
		return smt.Raw("fp.eq", smt.Bool, fa, fb)
	case token.NEQ:
		return smt.Not(smt.Raw("fp.eq", smt.Bool, fa, fb))
	case token.LSS:
		return smt.Raw("fp.lt", smt.Bool, fa, fb)
	case token.LEQ:
		return smt.Raw("fp.leq", smt.Bool, fa, fb)
	case token.GTR:
		return smt.Raw("fp.gt", smt.Bool, fa, fb)
	case token.GEQ:
		return smt.Raw("fp.geq", smt.Bool, fa, fb)
	}
	unsupported("float binop %s", op)
	return nil
}

func (e *Exec) floatConvert(st *State, v *smt.Term, from, to types.Type) *smt.Term {
	wf, sf, okf := intInfo(from)
	wt, stt, okt := intInfo(to)
	_ = wf
	switch {
	case isFloat(from) && isFloat(to):
		tw := e.W.SortOf(to).W
		if tw == v.S.W {
			return v
		}
		if tw == 32 {
			return e.fpResult(st, smt.Raw("(_ to_fp 8 24) RNE", FP32, ToFP(v)), 32)
		}
		return e.fpResult(st, smt.Raw("(_ to_fp 11 53) RNE", FP64, ToFP(v)), 64)
	case okf && isFloat(to):
		tw := e.W.SortOf(to).W
		op := "(_ to_fp 11 53) RNE"
		if tw == 32 {
			op = "(_ to_fp 8 24) RNE"
		}
		if !sf {
			op = "(_ to_fp_unsigned 11 53) RNE"
			if tw == 32 {
				op = "(_ to_fp_unsigned 8 24) RNE"
			}
		}
		return e.fpResult(st, smt.Raw(op, fpSort(tw), v), tw)
	case isFloat(from) && okt:
		// Go: result is implementation-defined when out of range; SMT: unspecified. Same looseness.
		if stt {
			return smt.Raw(fmt.Sprintf("(_ fp.to_sbv %d) RTZ", wt), smt.BV(wt), ToFP(v))
		}
		return smt.Raw(fmt.Sprintf("(_ fp.to_ubv %d) RTZ", wt), smt.BV(wt), ToFP(v))
	}
	unsupported("float conversion %s -> %s", from, to)
	return nil
}

func init() {
	type ifn = func(e *Exec, st *State, fn *ssa.Function, args []*smt.Term, resType types.Type, pos token.Pos) *smt.Term
	reg := func(name string, f ifn) { intrinsics[name] = f }
	reg("math.IsNaN", func(e *Exec, st *State, fn *ssa.Function, args []*smt.Term, resType types.Type, pos token.Pos) *smt.Term {
		return smt.Raw("fp.isNaN", smt.Bool, ToFP(args[0]))
	})
	reg("math.IsInf", func(e *Exec, st *State, fn *ssa.Function, args []*smt.Term, resType types.Type, pos token.Pos) *smt.Term {
		pinf := smt.Eq(args[0], smt.Const(64, 0x7ff0000000000000))
		ninf := smt.Eq(args[0], smt.Const(64, 0xfff0000000000000))
		s := args[1]
		zero := smt.Const(64, 0)
		return smt.Or(smt.And(smt.BVSle(zero, s), pinf), smt.And(smt.BVSle(s, zero), ninf))
	})
	reg("math.Inf", func(e *Exec, st *State, fn *ssa.Function, args []*smt.Term, resType types.Type, pos token.Pos) *smt.Term {
		return smt.Ite(smt.BVSle(smt.Const(64, 0), args[0]), smt.Const(64, 0x7ff0000000000000), smt.Const(64, 0xfff0000000000000))
	})
	reg("math.Signbit", func(e *Exec, st *State, fn *ssa.Function, args []*smt.Term, resType types.Type, pos token.Pos) *smt.Term {
		return smt.Eq(smt.Extract(args[0], 63, 63), smt.Const(1, 1))
	})
	reg("math.Abs", func(e *Exec, st *State, fn *ssa.Function, args []*smt.Term, resType types.Type, pos token.Pos) *smt.Term {
		return smt.BVAnd(args[0], smt.Const(64, 0x7fffffffffffffff))
	})
	reg("math.Copysign", func(e *Exec, st *State, fn *ssa.Function, args []*smt.Term, resType types.Type, pos token.Pos) *smt.Term {
		return smt.BVOr(smt.BVAnd(args[0], smt.Const(64, 0x7fffffffffffffff)), smt.BVAnd(args[1], smt.Const(64, 0x8000000000000000)))
	})
	round := func(mode string) ifn {
		return func(e *Exec, st *State, fn *ssa.Function, args []*smt.Term, resType types.Type, pos token.Pos) *smt.Term {
			return e.fpResult(st, smt.Raw("fp.roundToIntegral "+mode, FP64, ToFP(args[0])), 64)
		}
	}
	reg("math.Ceil", round("RTP"))
	reg("math.Floor", round("RTN"))
	reg("math.Trunc", round("RTZ"))
	reg("math.RoundToEven", round("RNE"))
	reg("math.Round", round("RNA"))
	reg("math.Sqrt", func(e *Exec, st *State, fn *ssa.Function, args []*smt.Term, resType types.Type, pos token.Pos) *smt.Term {
		return e.fpResult(st, smt.Raw("fp.sqrt RNE", FP64, ToFP(args[0])), 64)
	})
}
