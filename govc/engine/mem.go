package engine

import (
	"strings"
	"fmt"
	"go/token"
	"os"
	"go/types"

	"govc/smt"
)

// ---------------------------------------------------------------------------
// typed memory access

func (e *Exec) isCtor(a *smt.Term, name string) bool { return a.Op == "ctor" && a.Name == name }

// load reads a value of Go type t from address addr.
func (e *Exec) load(st *State, addr *smt.Term, t types.Type) *smt.Term {
	switch u := t.Underlying().(type) {
	case *types.Struct:
		s := e.W.SortOf(t)
		args := make([]*smt.Term, u.NumFields())
		for i := range args {
			args[i] = e.loadField(st, addr, t, i)
		}
		return smt.Ctor(s, s.Ctors[0].Name, args...)
	case *types.Array:
		if !isAggregate(u.Elem()) {
			h := e.heap(st, elemKey(u.Elem()), smt.Array(AddrS, smt.Array(BV64, e.W.SortOf(u.Elem()))))
			return smt.Select(h, addr)
		}
		if u.Len() <= 32 {
			arr := smt.ConstArr(e.W.SortOf(t), e.W.Zero(u.Elem()))
			for i := int64(0); i < u.Len(); i++ {
				ix := smt.Const(64, uint64(i))
				arr = smt.Store(arr, ix, e.load(st, Elm(addr, ix), u.Elem()))
			}
			return arr
		}
		e.W.Note("array-of-aggregate value load havocked: " + typeName(t))
		return e.fresh("arrval", e.W.SortOf(t))
	}
	if addr.Op == "ite" {
		return smt.Ite(addr.Args[0], e.load(st, addr.Args[1], t), e.load(st, addr.Args[2], t))
	}
	s := e.W.SortOf(t)
	var v, v0 *smt.Term
	switch {
	case e.isCtor(addr, "fld") && addr.Args[1].IsConst() && e.fieldHeapSort(int(addr.Args[1].Val)).Elem == s:
		fid := int(addr.Args[1].Val)
		key := e.W.fieldInfo[fid].key
		hs := e.fieldHeapSort(fid)
		e.partialAxioms(e.heap(st, key, hs), addr.Args[0])
		v = smt.Select(e.heap(st, key, hs), addr.Args[0])
		v0 = smt.Select(e.heapInit(key, hs), addr.Args[0])
	case e.isCtor(addr, "elm"):
		key := elemKey(t)
		hs := smt.Array(AddrS, smt.Array(BV64, s))
		v = smt.Select(smt.Select(e.heap(st, key, hs), addr.Args[0]), addr.Args[1])
		v0 = smt.Select(smt.Select(e.heapInit(key, hs), addr.Args[0]), addr.Args[1])
	default:
		key := cellKey(t)
		hs := smt.Array(AddrS, s)
		v = smt.Select(e.heap(st, key, hs), addr)
		v0 = smt.Select(e.heapInit(key, hs), addr)
		if st.OldCur != nil {
			// locals of the specification code itself live in the current state
			if e.specObj[addr.ID] {
				v = smt.Select(e.heap(st.OldCur, key, hs), addr)
			} else {
				v = smt.Ite(isFresh(addr, st.OldAlloc), smt.Select(e.heap(st.OldCur, key, hs), addr), v)
			}
		}
	}
	e.assumeWF(st, v, t)
	// every address stored in the initial heap at a location that existed at entry was allocated
	// before entry (locations of objects allocated later hold whatever their allocator put there)
	e.assumeNotFreshIf(st, smt.Not(isFresh(addr, e.alloc0)), v0, t, e.alloc0)
	e.assumeAllocated(st, v, t)
	return v
}

func (e *Exec) loadField(st *State, p *smt.Term, t types.Type, i int) *smt.Term {
	u := t.Underlying().(*types.Struct)
	fid := e.W.FieldID(t, i)
	return e.load(st, Fld(p, fid), u.Field(i).Type())
}

// store writes v (Go type t) to addr.
func (e *Exec) store(st *State, addr *smt.Term, t types.Type, v *smt.Term, pos token.Pos) {
	e.storeCond(st, smt.True, addr, t, v, pos)
}

func (e *Exec) storeCond(st *State, cond *smt.Term, addr *smt.Term, t types.Type, v *smt.Term, pos token.Pos) {
	if cond.IsFalse() {
		return
	}
	switch u := t.Underlying().(type) {
	case *types.Struct:
		for i := 0; i < u.NumFields(); i++ {
			fid := e.W.FieldID(t, i)
			e.storeCond(st, cond, Fld(addr, fid), u.Field(i).Type(), e.W.StructField(v, t, i), pos)
		}
		return
	case *types.Array:
		if !isAggregate(u.Elem()) {
			key := elemKey(u.Elem())
			hs := smt.Array(AddrS, smt.Array(BV64, e.W.SortOf(u.Elem())))
			e.writeHeap(st, cond, key, hs, addr, nil, v, pos)
			return
		}
		if u.Len() <= 32 {
			for i := int64(0); i < u.Len(); i++ {
				ix := smt.Const(64, uint64(i))
				e.storeCond(st, cond, Elm(addr, ix), u.Elem(), smt.Select(v, ix), pos)
			}
			return
		}
		unsupported("store of large array-of-aggregate %s", t)
	}
	if addr.Op == "ite" {
		e.storeCond(st, smt.And(cond, addr.Args[0]), addr.Args[1], t, v, pos)
		e.storeCond(st, smt.And(cond, smt.Not(addr.Args[0])), addr.Args[2], t, v, pos)
		return
	}
	s := e.W.SortOf(t)
	switch {
	case e.isCtor(addr, "fld") && addr.Args[1].IsConst() && e.fieldHeapSort(int(addr.Args[1].Val)).Elem == s:
		fid := int(addr.Args[1].Val)
		e.writeHeap(st, cond, e.W.fieldInfo[fid].key, e.fieldHeapSort(fid), addr.Args[0], nil, v, pos)
	case e.isCtor(addr, "elm"):
		e.writeHeap(st, cond, elemKey(t), smt.Array(AddrS, smt.Array(BV64, s)), addr.Args[0], addr.Args[1], v, pos)
	default:
		e.writeHeap(st, cond, cellKey(t), smt.Array(AddrS, s), addr, nil, v, pos)
	}
}

// writeHeap: H[a] = v  (idx == nil) or H[a][idx] = v, under cond, with the frame check.
func (e *Exec) writeHeap(st *State, cond *smt.Term, key string, hs *smt.Sort, a, idx, v *smt.Term, pos token.Pos) {
	e.checkFrame(st, cond, key, a, pos)
	h := e.heap(st, key, hs)
	var nh *smt.Term
	if idx == nil {
		nh = smt.Store(h, a, v)
	} else {
		nh = smt.Store(h, a, smt.Store(smt.Select(h, a), idx, v))
	}
	if !cond.IsTrue() {
		nh = smt.Ite(cond, nh, h)
	}
	e.setHeap(st, key, nh, a)
}

func (e *Exec) checkFrame(st *State, cond *smt.Term, key string, a *smt.Term, pos token.Pos) {
	if len(e.fstack) == 0 || e.mute > 0 {
		return
	}
	for i := len(e.fstack) - 1; i >= 0; i-- {
		fs := e.fstack[i]
		if fs == nil {
			return // barrier: unrestricted frame
		}
		if len(fs.deny) > 0 {
			var ds []*smt.Term
			for _, l := range fs.deny {
				if l.key == key {
					ds = append(ds, smt.Neq(l.addr, a))
				}
			}
			if len(ds) > 0 {
				saveSpec := e.spec
				e.spec = 0
				e.check(st, "frame", smt.Implies(cond, smt.And(ds...)), pos, "")
				e.spec = saveSpec
			}
		}
		if fs.all {
			continue
		}
		ok := []*smt.Term{isFresh(a, fs.snapAlloc), smt.Eq(a, NilAddr)}
		for _, l := range fs.locs {
			if l.key == "@elems" {
				if b := elemBase(a); b != nil {
					ok = append(ok, smt.Eq(l.addr, b))
				}
				continue
			}
			if l.key == key || l.key == "*" {
				ok = append(ok, smt.Eq(l.addr, a))
			}
		}
		// the check is an ordinary obligation of kind "frame"
		saveSpec := e.spec
		e.spec = 0
		e.check(st, "frame", smt.Implies(cond, smt.Or(ok...)), pos, "")
		e.spec = saveSpec
	}
}

// newObj allocates a fresh object id.
func (e *Exec) newObj(st *State) *smt.Term {
	p := Obj(st.Alloc)
	if e.objSeq == nil {
		e.objSeq = map[int]int{}
	}
	e.allocSeq++
	e.objSeq[p.ID] = e.allocSeq
	globalObjSeq[p.ID] = true
	if e.spec > 0 {
		if e.specObj == nil {
			e.specObj = map[int]bool{}
		}
		e.specObj[p.ID] = true
	}
	st.Alloc = smt.BVAdd(st.Alloc, smt.Const(64, 1))
	if e.disc != nil {
		e.disc.alloc = true
	}
	return p
}

// zeroInit stores the zero value of t at p without frame checks (fresh object).
func (e *Exec) zeroInit(st *State, p *smt.Term, t types.Type) {
	e.fstack = append(e.fstack, nil)
	defer func() { e.fstack = e.fstack[:len(e.fstack)-1] }()
	e.store(st, p, t, e.W.Zero(t), token.NoPos)
}

// havocHeapAt replaces the content of one location by an unconstrained value.
func (e *Exec) havocLoc(st *State, key string, a *smt.Term, pos token.Pos) {
	hs, ok := e.heapSort[key]
	if !ok {
		return
	}
	v := e.fresh("hv", hs.Elem)
	e.writeHeap(st, smt.True, key, hs, a, nil, v, pos)
}

// havocAll forgets every heap (unknown callee).
func (e *Exec) havocAll(st *State, why string, pos token.Pos) {
	e.approx++
	if os.Getenv("GOVC_DEBUG_HAVOC") != "" {
		fmt.Fprintf(os.Stderr, "havoc-all: %s at %s\n", why, e.W.Fset.Position(pos))
	}
	if e.disc != nil {
		e.disc.all = true
	}
	if len(e.fstack) > 0 && e.mute == 0 {
		restricted := false
		for i := len(e.fstack) - 1; i >= 0; i-- {
			if e.fstack[i] == nil {
				break
			}
			if !e.fstack[i].all {
				restricted = true
			}
		}
		if restricted {
			saveSpec := e.spec
			e.spec = 0
			e.check(st, "frame", smt.False, pos, "")
			e.spec = saveSpec
		}
	}
	type keep struct {
		loc frameLoc
		val *smt.Term
	}
	var keeps []keep
	for _, l := range e.keepOnHavoc {
		if hs, ok := e.heapSort[l.key]; ok {
			keeps = append(keeps, keep{l, smt.Select(e.heap(st, l.key, hs), l.addr)})
		}
	}
	for k := range st.Heaps {
		delete(st.Heaps, k)
	}
	st.Epoch = e.newEpoch()
	for _, k := range keeps {
		hs := e.heapSort[k.loc.key]
		st.Heaps[k.loc.key] = smt.Store(e.heap(st, k.loc.key, hs), k.loc.addr, k.val)
	}
	// ghost counters are observable effects too: an unknown callee may have bumped any of them
	for k := range e.ghostNames {
		if strings.HasPrefix(k, "L:") {
			// a ghost local to the contracts that mention it: assumed unchanged by callees without a contract
			e.W.Note("assumed: callees without a contract do not change the ghost " + k + " (they do not make the calls whose contracts set it)")
			continue
		}
		st.Ghost["G|"+k] = e.fresh("g."+k, ghostSort(k))
		if e.disc != nil {
			e.disc.ghost["G|"+k] = true
		}
	}
	_ = why
}

// objects allocated by the executor: two different allocation terms denote different objects on
// every execution on which both exist (allocation counters only grow along a path).
var globalObjSeq = map[int]bool{}

func init() {
	smt.DistinctHook = func(a, b *smt.Term) bool {
		return a.Name == "obj" && b.Name == "obj" && a != b && globalObjSeq[a.ID] && globalObjSeq[b.ID]
	}
}
