package engine

import (
	"fmt"
	"go/ast"
	"go/parser"
	"go/token"
	"os"
	"path/filepath"
	"regexp"
	"strconv"
	"strings"
)

type Param struct {
	Name, Type string
	Variadic   bool
}

type Clause struct {
	Label string
	Expr  string
	File  string
	Line  int
}

type LoopSpec struct {
	N      int
	Vars   []Param
	ExitAssume []Clause // assumed (trusted) when the loop exits: summaries such as "the map copy is complete"
	Invs   []Clause
	Unroll int
}

type Contract struct {
	ID        int
	Pkg       string // package import path
	Dir       string
	Props     []string
	Header    string
	FuncName  string
	Qualifier string // package qualifier for contracts on imported functions
	Recv      *Param
	RecvIface bool
	Params    []Param
	Results   []Param
	Requires  []Clause
	Ensures   []Clause
	MayPanic  []Clause
	Modifies  []string
	Preserves []string
	CalleesPreserve []string
	NoSafety  bool
	Records        [][2]string // history ghosts: name, expression (value at the last return of this function)
	LocalsSurvive  bool // heap-allocated locals of the function under contract keep their values across callees that modify everything
	DecideBranches bool // case contracts: undecided `x == constant` branches are put to the solver
	KeepPre   bool // with nosafety: callee preconditions are still checked
	AllocBound string
	InlineDepth int
	Closure     int     // >0: contract on the n-th function literal of the named function (verify-only)
	ClosureVars []Param // its captured variables, by name, as the clauses see them
	Case      string // label of a case contract (extra contract on a function, verify-only)
	InlineCalls []string // callees (name suffixes) executed by their bodies although they have a contract
	HasMod    bool
	MaybeNil  map[string]bool
	Inline    bool
	Trusted   bool
	Sweep     bool // obligations are claimed individually through the baseline (sweep ring)
	NoVerify  bool
	Loops     map[int]*LoopSpec
	Lemma     bool
	File      string
	Line      int

	HarnessName string
	Olds        int
}

func (c *Contract) Display() string {
	short := c.Pkg[strings.LastIndex(c.Pkg, "/")+1:]
	if c.Qualifier != "" {
		short = c.Qualifier
	}
	suffix := ""
	if c.Case != "" {
		suffix = "#" + c.Case
	}
	if c.Recv != nil {
		return fmt.Sprintf("%s.(%s).%s%s", short, c.Recv.Type, c.FuncName, suffix)
	}
	return short + "." + c.FuncName + suffix
}

func (c *Contract) HasProp(p string) bool {
	for _, x := range c.Props {
		if x == p {
			return true
		}
	}
	return false
}

// Thorough: the thorough tier is running (clauses labelled [...@thorough] are included).
var Thorough bool

var kwRe = regexp.MustCompile(`^(prop|func|lemma|case|closure|vars|inline-calls|requires|ensures|modifies|preserves|callees-preserve|alloc-bound|decide-branches|locals-survive-calls|records|nosafety|inline-depth|may-panic|maybe-nil|inline|trusted|noverify|sweep|loop|invariant|exit-assume|unroll|iface)\b(\[[A-Za-z0-9_\-\.@]+\])?\s*(.*)$`)

// ParseContractFile extracts //@ blocks from one Go file.
func ParseContractFile(path, pkgPath string) ([]*Contract, error) {
	data, err := os.ReadFile(path)
	if err != nil {
		return nil, err
	}
	var out []*Contract
	var cur *Contract
	var curLoop *LoopSpec
	var props []string
	type pending struct {
		kw, label, text string
		line            int
	}
	var pend *pending
	flush := func() error {
		if pend == nil {
			return nil
		}
		p := pend
		pend = nil
		cl := Clause{Label: p.label, Expr: strings.TrimSpace(p.text), File: path, Line: p.line}
		switch p.kw {
		case "prop":
			props = strings.Fields(p.text)
			return nil
		case "vars":
			// closure contracts: the captured variables the clauses mention, e.g. vars (c *callEngine, err error)
			h, err := parseHeader("func v" + strings.TrimSpace(p.text))
			if err != nil {
				return fmt.Errorf("%s:%d: bad vars clause: %v", path, p.line, err)
			}
			cur.ClosureVars = h.Params
		case "func", "lemma", "iface", "case", "closure":
			closureOrd := 0
			if p.kw == "closure" {
				// closure <n> (recv) f(params) results: the n-th function literal of f (source order)
				t := strings.TrimSpace(p.text)
				i := strings.IndexAny(t, " \t")
				if i < 0 {
					return fmt.Errorf("%s:%d: closure needs an ordinal and the enclosing function's header", path, p.line)
				}
				n, err := strconv.Atoi(t[:i])
				if err != nil || n < 1 {
					return fmt.Errorf("%s:%d: bad closure ordinal", path, p.line)
				}
				closureOrd = n
				p.text = strings.TrimSpace(t[i:])
			}
			caseLabel := ""
			if p.kw == "case" {
				// case <label> (recv) name(params) results: one more contract on the same function,
				// verified on its own, never used at call sites
				t := strings.TrimSpace(p.text)
				i := strings.IndexAny(t, " \t")
				if i < 0 {
					return fmt.Errorf("%s:%d: case needs a label and a function header", path, p.line)
				}
				caseLabel = t[:i]
				p.text = strings.TrimSpace(t[i:])
			}
			c, err := parseHeader(p.text)
			if err != nil {
				return fmt.Errorf("%s:%d: %v", path, p.line, err)
			}
			c.Pkg = pkgPath
			c.Dir = filepath.Dir(path)
			c.Props = props
			c.File = path
			c.Line = p.line
			c.Lemma = p.kw == "lemma"
			c.RecvIface = p.kw == "iface"
			c.Case = caseLabel
			c.Closure = closureOrd
			if closureOrd > 0 {
				c.Case = fmt.Sprintf("closure%d", closureOrd)
			}
			cur = c
			curLoop = nil
			out = append(out, c)
			return nil
		}
		if cur == nil {
			return fmt.Errorf("%s:%d: clause outside func block", path, p.line)
		}
		switch p.kw {
		case "requires":
			cur.Requires = append(cur.Requires, cl)
		case "ensures":
			if strings.HasSuffix(cl.Label, "@thorough") && !Thorough {
				return nil // a clause that is only attempted in the thorough tier (minutes of solver time)
			}
			cur.Ensures = append(cur.Ensures, cl)
		case "may-panic":
			cur.MayPanic = append(cur.MayPanic, cl)
		case "modifies":
			cur.HasMod = true
			for _, m := range splitTop(p.text, ',') {
				m = strings.TrimSpace(m)
				if m != "" && m != "nothing" && m != "fresh" {
					cur.Modifies = append(cur.Modifies, m)
				}
			}
		case "preserves":
			for _, m := range splitTop(p.text, ',') {
				m = strings.TrimSpace(m)
				if m != "" {
					cur.Preserves = append(cur.Preserves, m)
				}
			}
		case "callees-preserve":
			for _, m := range splitTop(p.text, ',') {
				m = strings.TrimSpace(m)
				if m != "" {
					cur.CalleesPreserve = append(cur.CalleesPreserve, m)
				}
			}
		case "alloc-bound":
			cur.AllocBound = strings.TrimSpace(p.text)
		case "records":
			// records <ghost name> = <expr over the results and the post-state>
			i := strings.Index(p.text, "=")
			if i < 0 {
				return fmt.Errorf("%s:%d: records needs `name = expr`", path, p.line)
			}
			cur.Records = append(cur.Records, [2]string{strings.TrimSpace(p.text[:i]), strings.TrimSpace(p.text[i+1:])})
		case "locals-survive-calls":
			cur.LocalsSurvive = true
		case "decide-branches":
			cur.DecideBranches = true
		case "nosafety":
			cur.NoSafety = true
			if strings.TrimSpace(p.text) == "keep-pre" {
				cur.KeepPre = true
			}
		case "inline-calls":
			for _, n := range strings.Fields(strings.ReplaceAll(p.text, ",", " ")) {
				cur.InlineCalls = append(cur.InlineCalls, n)
			}
		case "inline-depth":
			n, err := strconv.Atoi(strings.TrimSpace(p.text))
			if err != nil {
				return fmt.Errorf("%s:%d: bad inline-depth", path, p.line)
			}
			cur.InlineDepth = n
		case "maybe-nil":
			for _, n := range strings.Fields(strings.ReplaceAll(p.text, ",", " ")) {
				cur.MaybeNil[n] = true
			}
		case "inline":
			cur.Inline = true
		case "trusted":
			cur.Trusted = true
		case "noverify":
			cur.NoVerify = true
		case "sweep":
			cur.Sweep = true
		case "loop":
			// loop <n> (<vars>)
			t := strings.TrimSpace(p.text)
			numEnd := 0
			for numEnd < len(t) && t[numEnd] >= '0' && t[numEnd] <= '9' {
				numEnd++
			}
			n, err := strconv.Atoi(t[:numEnd])
			if err != nil {
				return fmt.Errorf("%s:%d: bad loop number", path, p.line)
			}
			ls := &LoopSpec{N: n}
			rest := strings.TrimSpace(t[numEnd:])
			if strings.HasPrefix(rest, "(") && strings.HasSuffix(rest, ")") {
				ps, err := parseParams(rest[1 : len(rest)-1])
				if err != nil {
					return fmt.Errorf("%s:%d: %v", path, p.line, err)
				}
				ls.Vars = ps
			}
			cur.Loops[n] = ls
			curLoop = ls
		case "invariant":
			if curLoop == nil {
				return fmt.Errorf("%s:%d: invariant outside loop", path, p.line)
			}
			if strings.HasSuffix(cl.Label, "@thorough") && !Thorough {
				return nil
			}
			curLoop.Invs = append(curLoop.Invs, cl)
		case "exit-assume":
			if curLoop == nil {
				return fmt.Errorf("%s:%d: exit-assume outside loop", path, p.line)
			}
			curLoop.ExitAssume = append(curLoop.ExitAssume, cl)
		case "unroll":
			if curLoop == nil {
				return fmt.Errorf("%s:%d: unroll outside loop", path, p.line)
			}
			n, err := strconv.Atoi(strings.TrimSpace(p.text))
			if err != nil {
				return err
			}
			curLoop.Unroll = n
		}
		return nil
	}
	lines := strings.Split(string(data), "\n")
	for i, ln := range lines {
		t := strings.TrimSpace(ln)
		if !strings.HasPrefix(t, "//@") {
			if err := flush(); err != nil {
				return nil, err
			}
			if t == "" || !strings.HasPrefix(t, "//") {
				cur = nil
				curLoop = nil
			}
			continue
		}
		body := strings.TrimSpace(t[3:])
		if body == "" {
			continue
		}
		if m := kwRe.FindStringSubmatch(body); m != nil {
			if err := flush(); err != nil {
				return nil, err
			}
			label := strings.Trim(m[2], "[]")
			pend = &pending{kw: m[1], label: label, text: m[3], line: i + 1}
		} else if pend != nil {
			pend.text += " " + body
		} else {
			return nil, fmt.Errorf("%s:%d: cannot parse contract line %q", path, i+1, body)
		}
	}
	if err := flush(); err != nil {
		return nil, err
	}
	return out, nil
}

func splitTop(s string, sep byte) []string {
	var out []string
	depth := 0
	start := 0
	inStr := byte(0)
	for i := 0; i < len(s); i++ {
		c := s[i]
		if inStr != 0 {
			if c == '\\' {
				i++
			} else if c == inStr {
				inStr = 0
			}
			continue
		}
		switch c {
		case '"', '\'', '`':
			inStr = c
		case '(', '[', '{':
			depth++
		case ')', ']', '}':
			depth--
		default:
			if c == sep && depth == 0 {
				out = append(out, s[start:i])
				start = i + 1
			}
		}
	}
	out = append(out, s[start:])
	return out
}

func parseParams(s string) ([]Param, error) {
	src := "package p\nfunc f(" + s + ") {}"
	fs := token.NewFileSet()
	f, err := parser.ParseFile(fs, "", src, 0)
	if err != nil {
		return nil, fmt.Errorf("bad parameter list %q: %v", s, err)
	}
	fd := f.Decls[0].(*ast.FuncDecl)
	return fieldsToParams(fd.Type.Params, src, fs, "p"), nil
}

func fieldsToParams(fl *ast.FieldList, src string, fs *token.FileSet, pfx string) []Param {
	var out []Param
	if fl == nil {
		return nil
	}
	n := 0
	for _, f := range fl.List {
		ty := src[fs.Position(f.Type.Pos()).Offset:fs.Position(f.Type.End()).Offset]
		variadic := false
		if _, ok := f.Type.(*ast.Ellipsis); ok {
			variadic = true
			ty = "[]" + strings.TrimPrefix(ty, "...")
		}
		if len(f.Names) == 0 {
			out = append(out, Param{Name: fmt.Sprintf("%s%d", pfx, n), Type: ty, Variadic: variadic})
			n++
		}
		for _, nm := range f.Names {
			name := nm.Name
			if name == "_" {
				name = fmt.Sprintf("%s%d", pfx, n)
			}
			out = append(out, Param{Name: name, Type: ty, Variadic: variadic})
			n++
		}
	}
	return out
}

func parseHeader(h string) (*Contract, error) {
	h = strings.TrimSpace(h)
	if !strings.HasPrefix(h, "func ") && !strings.HasPrefix(h, "func(") {
		h = "func " + h
	}
	// "func pkg.Name(...)": a contract for a function of another (imported) package
	qual := ""
	if m := qualRe.FindStringSubmatch(h); m != nil {
		qual = m[1]
		h = "func " + m[2] + h[len(m[0])-1:]
	}
	src := "package p\n" + h + " {}"
	fs := token.NewFileSet()
	f, err := parser.ParseFile(fs, "", src, 0)
	if err != nil {
		return nil, fmt.Errorf("bad contract header %q: %v", h, err)
	}
	fd := f.Decls[0].(*ast.FuncDecl)
	c := &Contract{Header: h, FuncName: fd.Name.Name, Qualifier: qual, MaybeNil: map[string]bool{}, Loops: map[int]*LoopSpec{}}
	if fd.Recv != nil {
		r := fieldsToParams(fd.Recv, src, fs, "recv")
		if len(r) != 1 {
			return nil, fmt.Errorf("bad receiver in %q", h)
		}
		c.Recv = &r[0]
	}
	c.Params = fieldsToParams(fd.Type.Params, src, fs, "p")
	c.Results = fieldsToParams(fd.Type.Results, src, fs, "r")
	return c, nil
}

// ---------------------------------------------------------------------------
// expression rewriting: ==>, <==>, forall/exists, old()

type rewriter struct {
	bound   []string
	olds    []string // hoisted "old_k := expr"
	oldBase int
	noHoist bool
	err     error
}

func findTop(s, op string) int {
	depth := 0
	inStr := byte(0)
	for i := 0; i < len(s); i++ {
		c := s[i]
		if inStr != 0 {
			if c == '\\' {
				i++
			} else if c == inStr {
				inStr = 0
			}
			continue
		}
		switch c {
		case '"', '\'', '`':
			inStr = c
		case '(', '[', '{':
			depth++
		case ')', ']', '}':
			depth--
		}
		if depth == 0 && strings.HasPrefix(s[i:], op) {
			// do not confuse "==>" inside "<==>"
			if op == "==>" && i > 0 && s[i-1] == '<' {
				continue
			}
			return i
		}
	}
	return -1
}

var qualRe = regexp.MustCompile(`^func\s+([A-Za-z_]\w*)\.([A-Za-z_]\w*)\(`)

var quantRe = regexp.MustCompile(`^(forall|exists)\s+([^:]+?)\s*::`)

func isIdent(c byte) bool {
	return c == '_' || c >= 'a' && c <= 'z' || c >= 'A' && c <= 'Z' || c >= '0' && c <= '9'
}

func (r *rewriter) rewrite(s string, inQuant bool) string {
	s = strings.TrimSpace(s)
	// scan at depth 0 for the first of: quantifier keyword, "<==>", "==>"
	depth := 0
	inStr := byte(0)
	for i := 0; i < len(s); i++ {
		c := s[i]
		if inStr != 0 {
			if c == '\\' {
				i++
			} else if c == inStr {
				inStr = 0
			}
			continue
		}
		switch c {
		case '"', '\'', '`':
			inStr = c
			continue
		case '(', '[', '{':
			depth++
			continue
		case ')', ']', '}':
			depth--
			continue
		}
		if depth != 0 {
			continue
		}
		if strings.HasPrefix(s[i:], "<==>") {
			return "((" + r.rewrite(s[:i], inQuant) + ") == (" + r.rewrite(s[i+4:], inQuant) + "))"
		}
		if strings.HasPrefix(s[i:], "==>") {
			return "(!(" + r.rewrite(s[:i], inQuant) + ") || (" + r.rewrite(s[i+3:], inQuant) + "))"
		}
		if i == 0 || !isIdent(s[i-1]) {
			if m := quantRe.FindStringSubmatch(s[i:]); m != nil {
				binder := m[2]
				body := s[i+len(m[0]):]
				ps, err := parseParams(binder)
				if err != nil {
					r.err = err
					return "true"
				}
				nb := len(r.bound)
				for _, p := range ps {
					r.bound = append(r.bound, p.Name)
				}
				rb := r.rewrite(body, true)
				r.bound = r.bound[:nb]
				q := rb
				for k := len(ps) - 1; k >= 0; k-- {
					q = fmt.Sprintf("verif_%s(func(%s %s) bool { return %s })", m[1], ps[k].Name, ps[k].Type, q)
				}
				return r.rewriteGroups(s[:i], inQuant) + q
			}
		}
	}
	return r.rewriteGroups(s, inQuant)
}

// rewriteGroups handles old(...) and recurses into bracketed groups.
func (r *rewriter) rewriteGroups(s string, inQuant bool) string {
	var b strings.Builder
	inStr := byte(0)
	for i := 0; i < len(s); i++ {
		c := s[i]
		if inStr != 0 {
			b.WriteByte(c)
			if c == '\\' && i+1 < len(s) {
				i++
				b.WriteByte(s[i])
			} else if c == inStr {
				inStr = 0
			}
			continue
		}
		if c == '"' || c == '\'' || c == '`' {
			inStr = c
			b.WriteByte(c)
			continue
		}
		// old( / old[
		if strings.HasPrefix(s[i:], "old") && (i == 0 || !isIdent(s[i-1]) && s[i-1] != '.') && i+3 < len(s) && (s[i+3] == '(' || s[i+3] == '[') {
			j := i + 3
			ty := ""
			if s[j] == '[' {
				e := matchClose(s, j)
				ty = s[j+1 : e]
				j = e + 1
			}
			if j < len(s) && s[j] == '(' {
				e := matchClose(s, j)
				inner := s[j+1 : e]
				if ty != "" {
					saved := r.noHoist
					r.noHoist = true
					in := r.rewrite(inner, inQuant)
					r.noHoist = saved
					fmt.Fprintf(&b, "verif_old(func() %s { return %s })", ty, in)
				} else {
					if (inQuant && r.mentionsBound(inner)) || r.noHoist {
						r.err = fmt.Errorf("old(%s) under a quantifier/invariant needs the typed form old[T](...)", inner)
						return "true"
					}
					saved := r.noHoist
					r.noHoist = true
					in := r.rewrite(inner, inQuant)
					r.noHoist = saved
					name := fmt.Sprintf("old_%d", r.oldBase+len(r.olds))
					r.olds = append(r.olds, fmt.Sprintf("%s := %s", name, in))
					b.WriteString(name)
				}
				i = e
				continue
			}
		}
		if c == '(' || c == '[' || c == '{' {
			e := matchClose(s, i)
			if e < 0 {
				r.err = fmt.Errorf("unbalanced brackets in %q", s)
				return "true"
			}
			b.WriteByte(c)
			if c == '(' {
				// argument lists: rewrite each comma-separated part
				parts := splitTop(s[i+1:e], ',')
				for k, p := range parts {
					if k > 0 {
						b.WriteByte(',')
					}
					if strings.TrimSpace(p) != "" {
						b.WriteString(r.rewrite(p, inQuant))
					}
				}
			} else {
				b.WriteString(r.rewriteGroups(s[i+1:e], inQuant))
			}
			b.WriteByte(s[e])
			i = e
			continue
		}
		b.WriteByte(c)
	}
	return b.String()
}

func (r *rewriter) mentionsBound(s string) bool {
	for _, b := range r.bound {
		for i := 0; i+len(b) <= len(s); i++ {
			if s[i:i+len(b)] == b && (i == 0 || !isIdent(s[i-1])) && (i+len(b) == len(s) || !isIdent(s[i+len(b)])) {
				return true
			}
		}
	}
	return false
}

func matchClose(s string, i int) int {
	depth := 0
	inStr := byte(0)
	for j := i; j < len(s); j++ {
		c := s[j]
		if inStr != 0 {
			if c == '\\' {
				j++
			} else if c == inStr {
				inStr = 0
			}
			continue
		}
		switch c {
		case '"', '\'', '`':
			inStr = c
		case '(', '[', '{':
			depth++
		case ')', ']', '}':
			depth--
			if depth == 0 {
				return j
			}
		}
	}
	return -1
}

// ---------------------------------------------------------------------------
// harness generation

const harnessPrelude = `
// ---- generated by govc (overlay only; never written to the repository) ----
func verif_requires(k int, c bool)            {}
func verif_ensures(k int, c bool)             {}
func verif_may_panic(k int, c bool)           {}
func verif_target()                           {}
func verif_modifies[T any](p *T)              {}
func verif_modifies_elems[T any](s []T)       {}
func verif_modifies_map[K comparable, V any](m map[K]V) {}
func verif_modifies_obj[T any](p *T)          {}
func verif_modifies_all()                     {}
func verif_modifies_ghost(name string)        {}
func verif_alloc_bound(n uint64)              {}
func verif_uf_u64(name string, x any) uint64  { return 0 }
func verif_field_int(p any, name string) int  { return 0 }
func verif_field_len(p any, name string) int  { return 0 }
func verif_modifies_ghostflag(name string, x any) {}
func verif_ghost_flag(name string, x any) bool { return false }
func verif_ghost_int(name string) int         { return 0 }
func verif_record(name string, v int)         {}
func verif_ghost_map(name string, k uint64) uint64 { return 0 }
func verif_ghost_map_kept(mark, other string) bool { return true }
func verif_ghost_map_old(name string, k uint64) uint64 { return 0 }
func verif_ghost_map_upd(name string, k uint64, c bool, v uint64) bool { return true }
func verif_preserves[T any](p *T)             {}
func verif_preserves_obj[T any](p *T)         {}
func verif_callees_preserve[T any](p *T)      {}
func verif_preserves_map[K comparable, V any](m map[K]V) {}
func verif_old[T any](f func() T) T           { return f() }
func verif_forall[T any](f func(T) bool) bool { return true }
func verif_exists[T any](f func(T) bool) bool { return true }
func verif_fresh[T any](p *T) bool             { return true }
func verif_fresh_slice[T any](s []T) bool      { return true }
func verif_fresh_map[K comparable, V any](m map[K]V) bool { return true }
func verif_maphas[K comparable, V any](m map[K]V, k K) bool { _, ok := m[k]; return ok }
func verif_same_array[T any](a, b []T) bool    { return true }
func verif_slice_at[T any](a, b []T, off int) bool { return true }
func verif_slice_off[T any](a []T) int         { return 0 }
func verif_assume(c bool)                      {}
func verif_assert(c bool)                      {}
`

func paramDecl(ps []Param) string {
	var xs []string
	for _, p := range ps {
		xs = append(xs, p.Name+" "+p.Type)
	}
	return strings.Join(xs, ", ")
}

// Generate returns Go source for the harness + invariant functions of contract c.
func (c *Contract) Generate() (string, error) {
	if c.Lemma {
		return "", nil // a lemma is an ordinary ghost function in the contract file, run as is
	}
	if c.Closure > 0 {
		var b strings.Builder
		fmt.Fprintf(&b, "\n// closure contract %s (%s:%d)\n", c.Display(), filepath.Base(c.File), c.Line)
		for k, cl := range c.Requires {
			rw := &rewriter{noHoist: true}
			fmt.Fprintf(&b, "func verif_Q_%d_r%d(%s) bool { return %s }\n", c.ID, k, paramDecl(c.ClosureVars), rw.rewrite(cl.Expr, false))
			if rw.err != nil {
				return "", fmt.Errorf("%s: %v", c.Display(), rw.err)
			}
		}
		for k, cl := range c.Ensures {
			rw := &rewriter{noHoist: true}
			fmt.Fprintf(&b, "func verif_Q_%d_e%d(%s) bool { return %s }\n", c.ID, k, paramDecl(c.ClosureVars), rw.rewrite(cl.Expr, false))
			if rw.err != nil {
				return "", fmt.Errorf("%s: %v", c.Display(), rw.err)
			}
		}
		return b.String(), nil
	}
	var b strings.Builder
	c.HarnessName = fmt.Sprintf("verif_C_%d", c.ID)
	var all []Param
	if c.Recv != nil {
		all = append(all, *c.Recv)
	}
	all = append(all, c.Params...)
	rw := &rewriter{}
	fmt.Fprintf(&b, "\n// contract %s (%s:%d)\nfunc %s(%s) {\n", c.Display(), filepath.Base(c.File), c.Line, c.HarnessName, paramDecl(all))
	for k, cl := range c.Requires {
		e := rw.rewrite(cl.Expr, false)
		fmt.Fprintf(&b, "\tverif_requires(%d, %s)\n", k, e)
	}
	if len(rw.olds) > 0 {
		return "", fmt.Errorf("%s: old() in requires", c.Display())
	}
	for k, cl := range c.MayPanic {
		e := rw.rewrite(cl.Expr, false)
		fmt.Fprintf(&b, "\tverif_may_panic(%d, %s)\n", k, e)
	}
	if c.HasMod {
		fmt.Fprintf(&b, "\tverif_modifies_obj((*int)(nil))\n") // marks: frame is restricted
		for _, m := range c.Modifies {
			switch {
			case m == "all":
				fmt.Fprintf(&b, "\tverif_modifies_all()\n")
			case strings.HasPrefix(m, "ghostflag(") && strings.HasSuffix(m, ")"):
				fmt.Fprintf(&b, "\tverif_modifies_ghostflag(%s)\n", m[10:len(m)-1])
			case strings.HasPrefix(m, "ghost(") && strings.HasSuffix(m, ")"):
				fmt.Fprintf(&b, "\tverif_modifies_ghost(%s)\n", m[6:len(m)-1])
			case strings.HasPrefix(m, "elems(") && strings.HasSuffix(m, ")"):
				fmt.Fprintf(&b, "\tverif_modifies_elems(%s)\n", m[6:len(m)-1])
			case strings.HasPrefix(m, "map(") && strings.HasSuffix(m, ")"):
				fmt.Fprintf(&b, "\tverif_modifies_map(%s)\n", m[4:len(m)-1])
			case strings.HasPrefix(m, "obj(") && strings.HasSuffix(m, ")"):
				fmt.Fprintf(&b, "\tverif_modifies_obj(%s)\n", m[4:len(m)-1])
			default:
				fmt.Fprintf(&b, "\tverif_modifies(&(%s))\n", m)
			}
		}
	}
	for _, m := range c.Preserves {
		if strings.HasPrefix(m, "obj(") && strings.HasSuffix(m, ")") {
			fmt.Fprintf(&b, "\tverif_preserves_obj(%s)\n", m[4:len(m)-1])
		} else if strings.HasPrefix(m, "map(") && strings.HasSuffix(m, ")") {
			fmt.Fprintf(&b, "\tverif_preserves_map(%s)\n", m[4:len(m)-1])
		} else {
			fmt.Fprintf(&b, "\tverif_preserves(&(%s))\n", m)
		}
	}
	if c.AllocBound != "" {
		fmt.Fprintf(&b, "\tverif_alloc_bound(%s)\n", rw.rewrite(c.AllocBound, false))
	}
	for _, m := range c.CalleesPreserve {
		fmt.Fprintf(&b, "\tverif_callees_preserve(&(%s))\n", m)
	}
	// ensures are rewritten first to collect the hoisted old() values
	var ens []string
	for _, cl := range c.Ensures {
		ens = append(ens, rw.rewrite(cl.Expr, false))
	}
	var recs []string
	for _, r := range c.Records {
		recs = append(recs, rw.rewrite(r[1], false))
	}
	if rw.err != nil {
		return "", fmt.Errorf("%s: %v", c.Display(), rw.err)
	}
	for _, o := range rw.olds {
		fmt.Fprintf(&b, "\t%s\n", o)
	}
	c.Olds = len(rw.olds)
	fmt.Fprintf(&b, "\tverif_target()\n")
	var args []string
	for _, p := range c.Params {
		if p.Variadic {
			args = append(args, p.Name+"...")
		} else {
			args = append(args, p.Name)
		}
	}
	call := c.FuncName + "(" + strings.Join(args, ", ") + ")"
	if c.Qualifier != "" {
		call = c.Qualifier + "." + call
	}
	if c.Recv != nil {
		call = c.Recv.Name + "." + call
	}
	if len(c.Results) > 0 {
		var rs []string
		for _, r := range c.Results {
			rs = append(rs, r.Name)
		}
		fmt.Fprintf(&b, "\t%s := %s\n", strings.Join(rs, ", "), call)
		fmt.Fprintf(&b, "\t%s\n", discardLine(rs))
	} else {
		fmt.Fprintf(&b, "\t%s\n", call)
	}
	for k, e := range ens {
		fmt.Fprintf(&b, "\tverif_ensures(%d, %s)\n", k, e)
	}
	for k, e := range recs {
		fmt.Fprintf(&b, "\tverif_record(%q, int(%s))\n", c.Records[k][0], e)
	}
	fmt.Fprintf(&b, "}\n")
	// invariants
	for _, n := range sortedLoopKeys(c.Loops) {
		ls := c.Loops[n]
		ps := append(append([]Param{}, all...), c.namedResults()...)
		ps = append(ps, ls.Vars...)
		for k, cl := range ls.Invs {
			rw2 := &rewriter{noHoist: true}
			e := rw2.rewrite(cl.Expr, false)
			if rw2.err != nil {
				return "", fmt.Errorf("%s loop %d: %v", c.Display(), n, rw2.err)
			}
			fmt.Fprintf(&b, "func verif_I_%d_%d_%d(%s) bool { return %s }\n", c.ID, n, k, paramDecl(ps), e)
		}
		for k, cl := range ls.ExitAssume {
			rw2 := &rewriter{noHoist: true}
			e := rw2.rewrite(cl.Expr, false)
			if rw2.err != nil {
				return "", fmt.Errorf("%s loop %d: %v", c.Display(), n, rw2.err)
			}
			fmt.Fprintf(&b, "func verif_I_%d_%d_x%d(%s) bool { return %s }\n", c.ID, n, k, paramDecl(ps), e)
		}
	}
	return b.String(), nil
}

func (c *Contract) namedResults() []Param {
	var out []Param
	for _, r := range c.Results {
		if !(len(r.Name) >= 2 && r.Name[0] == 'r' && r.Name[1] >= '0' && r.Name[1] <= '9') {
			out = append(out, r)
		}
	}
	return out
}

func sortedLoopKeys(m map[int]*LoopSpec) []int {
	var ks []int
	for k := range m {
		ks = append(ks, k)
	}
	for i := range ks {
		for j := i + 1; j < len(ks); j++ {
			if ks[j] < ks[i] {
				ks[i], ks[j] = ks[j], ks[i]
			}
		}
	}
	return ks
}

// FixMultiAssign: "_, _ = r0, 0" only type-checks for one result; build a generic discard.
func discardLine(rs []string) string {
	var us []string
	for range rs {
		us = append(us, "_")
	}
	return strings.Join(us, ", ") + " = " + strings.Join(rs, ", ")
}
