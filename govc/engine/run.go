package engine

import (
	"regexp"
	"fmt"
	"go/token"
	"go/types"
	"os"
	"path/filepath"
	"sort"
	"strings"
	"sync"
	"time"

	"govc/smt"

	"golang.org/x/tools/go/ssa"
	"golang.org/x/tools/go/ssa/ssautil"
)

// FindContractFiles lists verif_contracts*.go files under repo.
func FindContractFiles(repo string) ([]string, error) {
	var out []string
	err := filepath.Walk(repo, func(p string, info os.FileInfo, err error) error {
		if err != nil {
			return nil
		}
		if info.IsDir() {
			n := info.Name()
			if n == ".git" || n == "testdata" || n == "node_modules" {
				return filepath.SkipDir
			}
			return nil
		}
		if strings.HasPrefix(info.Name(), "verif_contracts") && strings.HasSuffix(info.Name(), ".go") {
			out = append(out, p)
		}
		return nil
	})
	sort.Strings(out)
	return out, err
}

func pkgPathOf(repo, file string) string {
	rel, _ := filepath.Rel(repo, filepath.Dir(file))
	if rel == "." {
		return ModulePath
	}
	return ModulePath + "/" + filepath.ToSlash(rel)
}

// Setup parses all contracts, generates the overlay, loads packages and resolves targets.
// If props is non-empty only packages with contracts for those properties (plus extraPkgs) are loaded.
func Setup(repo string, props []string, extraPkgs []string) (*World, error) {
	files, err := FindContractFiles(repo)
	if err != nil {
		return nil, err
	}
	var all []*Contract
	byFile := map[string][]*Contract{}
	for _, f := range files {
		cs, err := ParseContractFile(f, pkgPathOf(repo, f))
		if err != nil {
			return nil, err
		}
		byFile[f] = cs
		all = append(all, cs...)
	}
	for i, c := range all {
		c.ID = i + 1
	}
	overlay := map[string][]byte{}
	pkgsWanted := map[string]bool{}
	preludeDone := map[string]bool{}
	for _, f := range files {
		src, err := os.ReadFile(f)
		if err != nil {
			return nil, err
		}
		var b strings.Builder
		b.Write(src)
		for _, m := range ghostNameRe.FindAllSubmatch(src, -1) {
			if len(m[1]) > 0 {
				GhostNamesSeen[string(m[1])] = true
			} else if len(m) > 2 && len(m[2]) > 0 {
				GhostNamesSeen[string(m[2])] = true
			}
		}
		pkg := pkgPathOf(repo, f)
		if !preludeDone[pkg] {
			preludeDone[pkg] = true
			b.WriteString(harnessPrelude)
		}
		for _, c := range byFile[f] {
			g, err := c.Generate()
			if err != nil {
				return nil, err
			}
			b.WriteString(g)
			want := len(props) == 0
			for _, p := range props {
				if c.HasProp(p) {
					want = true
				}
			}
			if want {
				pkgsWanted[pkg] = true
			}
		}
		overlay[f] = []byte(b.String())
	}
	var patterns []string
	for p := range pkgsWanted {
		patterns = append(patterns, p)
	}
	patterns = append(patterns, extraPkgs...)
	sort.Strings(patterns)
	if len(patterns) == 0 {
		return nil, fmt.Errorf("no packages to load")
	}
	w, err := Load(repo, patterns, overlay)
	if w != nil {
		w.Overlay = overlay
		w.Repo = repo
	}
	if err != nil {
		if os.Getenv("GOVC_DUMP_OVERLAY") != "" {
			for f, c := range overlay {
				os.WriteFile(filepath.Join(os.Getenv("GOVC_DUMP_OVERLAY"), strings.ReplaceAll(strings.TrimPrefix(f, repo+"/"), "/", "_")), c, 0o644)
			}
		}
		return nil, err
	}
	w.ContractList = all
	// resolve targets
	for _, c := range all {
		pkg := w.Pkgs[c.Pkg]
		if pkg == nil {
			continue // package not loaded in this run
		}
		if c.Lemma {
			if pkg.Func(c.FuncName) == nil {
				return nil, fmt.Errorf("lemma function %s not found", c.FuncName)
			}
			continue
		}
		if c.Closure > 0 {
			continue
		}
		hf := pkg.Func(c.HarnessName)
		if hf == nil {
			return nil, fmt.Errorf("harness for %s missing after load", c.Display())
		}
		tgt, isInvoke, key := findTarget(hf)
		if isInvoke {
			w.IfaceCons[key] = c
			c.RecvIface = true
			continue
		}
		if tgt == nil {
			return nil, fmt.Errorf("contract %s: cannot resolve target call", c.Display())
		}
		if c.Case != "" {
			continue
		}
		if tp := tgt.Pkg; c.Qualifier != "" || (tp != nil && tp.Pkg.Path() != c.Pkg) {
			if w.ExtContracts[tgt] == nil {
				w.ExtContracts[tgt] = map[string]*Contract{}
			}
			if prev := w.ExtContracts[tgt][c.Pkg]; prev != nil {
				return nil, fmt.Errorf("two contracts for %s: %s:%d and %s:%d", tgt, prev.File, prev.Line, c.File, c.Line)
			}
			w.ExtContracts[tgt][c.Pkg] = c
			continue
		}
		if prev, ok := w.Contracts[tgt]; ok {
			return nil, fmt.Errorf("two contracts for %s: %s:%d and %s:%d", tgt, prev.File, prev.Line, c.File, c.Line)
		}
		w.Contracts[tgt] = c
		if o := tgt.Origin(); o != nil {
			w.ByOrigin[o] = tgt
		}
		w.targets = append(w.targets, tgt)
	}
	return w, nil
}

// ghost variable names are string literals in the contract files: collected up front so that a callee's
// `modifies ghost("*")` (and an unknown callee) forgets all of them, not only those read so far.
var ghostNameRe = regexp.MustCompile(`(?:\bgr|\bgg|verif_ghost_int|verif_ghost_map(?:_upd|_old)?|\bghost)\("([A-Za-z0-9_:]+)"|//@\s+records\s+([A-Za-z0-9_:]+)\s*=`)
var GhostNamesSeen = map[string]bool{}

func findTarget(hf *ssa.Function) (*ssa.Function, bool, string) {
	seenMarker := false
	for _, b := range hf.Blocks {
		for _, in := range b.Instrs {
			call, ok := in.(*ssa.Call)
			if !ok {
				continue
			}
			if sc := call.Call.StaticCallee(); sc != nil && sc.Name() == "verif_target" {
				seenMarker = true
				continue
			}
			if !seenMarker {
				continue
			}
			if call.Call.IsInvoke() {
				return nil, true, ifaceKeyOf(&call.Call)
			}
			return call.Call.StaticCallee(), false, ""
		}
	}
	return nil, false, ""
}

func (w *World) TargetOf(c *Contract) *ssa.Function {
	for fn, cc := range w.Contracts {
		if cc == c {
			return fn
		}
	}
	return nil
}

// ---------------------------------------------------------------------------

type FuncResult struct {
	Name       string
	Contract   *Contract
	Obls       []*Obligation
	OutOfReach string // non-empty: function left the subset
	Abstracted []string
	GenSecs    float64
	Ring       string // "contract" | "sweep"
}

func (e *Exec) symbolicArgs(st *State, params []*ssa.Parameter, maybeNil map[string]bool) []*smt.Term {
	var args []*smt.Term
	for _, p := range params {
		v := e.freshVal(st, "p."+p.Name(), p.Type())
		e.assumeNotFresh(st, v, p.Type(), e.alloc0)
		if _, ok := p.Type().Underlying().(*types.Pointer); ok && !maybeNil[p.Name()] {
			st.Assume(smt.Neq(v, NilAddr))
		}
		args = append(args, v)
		if v.S.Kind != smt.KTuple {
			e.inputs = append(e.inputs, v)
			e.inputNames = append(e.inputNames, p.Name())
		}
	}
	return args
}

// VerifyContract generates the obligations of one contract (target body against its contract).
func VerifyContract(w *World, c *Contract) (res *FuncResult) {
	t0 := time.Now()
	res = &FuncResult{Name: c.Display(), Contract: c, Ring: "contract"}
	if c.Sweep {
		res.Ring = "sweep"
	}
	e := NewExec(w)
	e.curFunc = c.Display()
	e.curProps = c.Props
	defer func() {
		res.GenSecs = time.Since(t0).Seconds()
		for k := range e.Abstracted {
			res.Abstracted = append(res.Abstracted, k)
		}
		sort.Strings(res.Abstracted)
		if r := recover(); r != nil {
			if u, ok := r.(Unsupported); ok {
				res.OutOfReach = u.Msg
				res.Obls = e.Obls
				return
			}
			panic(r)
		}
	}()
	pkg := w.Pkgs[c.Pkg]
	if c.Closure > 0 {
		e.verifyClosure(pkg, c)
		res.Obls = e.Obls
		return res
	}
	if c.Lemma {
		// a lemma: ghost Go code executing the real functions, with verif_assert as obligations
		lf := pkg.Func(c.FuncName)
		st := e.NewState()
		args := e.symbolicArgs(st, lf.Params, c.MaybeNil)
		e.spec++
		e.lemmaMode = true
		e.runFunc(lf, args, nil, st, nil)
		e.lemmaMode = false
		e.spec--
		res.Obls = e.Obls
		return res
	}
	hf := pkg.Func(c.HarnessName)
	st := e.NewState()
	args := e.symbolicArgs(st, hf.Params, c.MaybeNil)
	e.vacuityOn = true
	e.runHarness(st, c, args, false, token.NoPos)
	// the contract as a whole must not be vacuous: some execution reaches the end
	e.Obls = append(e.Obls, &Obligation{Name: c.Display() + "/vacuity:end", Kind: "vacuity", Func: c.Display(),
		Hyp: e.hyp(st), Goal: smt.False, Vacuity: true, Props: c.Props, Text: "post-state reachable (requires and ensures are jointly satisfiable)"})
	res.Obls = e.Obls
	return res
}

// SweepFunction generates only the zero-annotation safety obligations of fn.
func SweepFunction(w *World, fn *ssa.Function, props []string) (res *FuncResult) {
	t0 := time.Now()
	name := shortFn(fn)
	res = &FuncResult{Name: name, Ring: "sweep"}
	e := NewExec(w)
	e.curFunc = name
	e.curProps = props
	defer func() {
		res.GenSecs = time.Since(t0).Seconds()
		for k := range e.Abstracted {
			res.Abstracted = append(res.Abstracted, k)
		}
		sort.Strings(res.Abstracted)
		if r := recover(); r != nil {
			if u, ok := r.(Unsupported); ok {
				res.OutOfReach = u.Msg
				res.Obls = e.Obls
				return
			}
			panic(r)
		}
	}()
	st := e.NewState()
	args := e.symbolicArgs(st, fn.Params, nil)
	e.fstack = nil
	_, _ = e.runFunc(fn, args, nil, st, w.Contracts[fn])
	res.Obls = e.Obls
	return res
}

// ---------------------------------------------------------------------------
// discharge

type OblResult struct {
	O      *Obligation
	R      smt.Result
	OK     bool
	Script string
}

func Discharge(obls []*Obligation, tmo time.Duration, workers int, dir string) []*OblResult {
	out := make([]*OblResult, len(obls))
	// scripts are generated sequentially (term tables are not thread-safe), solved in parallel
	scripts := make([]string, len(obls))
	ground := make([]string, len(obls)) // quantifier-free weakening (empty if not applicable)
	bare := make([]string, len(obls))   // quantifiers abstracted, no instances at all
	final := make([][]*smt.Term, len(obls)) // the assert list of scripts[i] (for case splitting on retry)
	for i, o := range obls {
		var asserts []*smt.Term
		if o.Vacuity {
			asserts = []*smt.Term{o.Hyp}
		} else {
			asserts = []*smt.Term{o.Hyp, smt.Not(o.Goal)}
		}
		if smt.DebugInst {
			fmt.Printf("=== obligation %s\n", o.Name)
		}
		if o.Vacuity {
			// contradiction hunting on the instantiated, quantifier-abstracted hypothesis:
			// unsat there is a real contradiction; sat/unknown counts as not vacuous
			asserts = smt.Instantiate(asserts, 300)
			if g, changed := smt.AbstractQuantifiers(asserts); changed {
				asserts = g
			}
		}
		if !o.Vacuity {
			if b, changed := smt.AbstractQuantifiers(smt.Skolemize(asserts)); changed {
				bare[i] = smt.Script(b, nil, false)
			}
			asserts = smt.Instantiate(asserts, 600)
			if g, changed := smt.AbstractQuantifiers(asserts); changed {
				ground[i] = smt.Script(g, nil, false)
			}
		}
		scripts[i] = smt.Script(asserts, o.Values, true)
		final[i] = asserts
	}
	var wg sync.WaitGroup
	sem := make(chan struct{}, workers)
	for i := range obls {
		wg.Add(1)
		go func(i int) {
			defer wg.Done()
			sem <- struct{}{}
			defer func() { <-sem }()
			o := obls[i]
			fname := fmt.Sprintf("o%05d", i)
			var r smt.Result
			solved := false
			if bare[i] != "" {
				quick := tmo / 4
				if quick < 2*time.Second {
					quick = 2 * time.Second
				}
				r = smt.Solve(dir, fname+"b", bare[i], quick)
				if r.Status == "unsat" {
					r.Backend += "+noquant"
					solved = true
				}
			}
			if !solved && ground[i] != "" {
				r = smt.SolveRace(dir, fname+"g", ground[i], tmo)
				if r.Status == "unsat" {
					r.Backend += "+inst"
					solved = true
				}
			}
			if !solved && !o.Vacuity && ground[i] != "" && r.Status == "timeout" && len(o.Splits) > 0 {
				// hard for both solvers on the instantiated script: go straight to the case-split retry
				solved = true
			}
			if !solved {
				r2 := smt.Solve(dir, fname, scripts[i], tmo)
				r2.Secs += r.Secs
				r = r2
			}
			ok := false
			if o.Vacuity {
				ok = r.Status == "sat" || r.Status == "unknown" || r.Status == "timeout"
			} else {
				ok = r.Status == "unsat"
			}
			out[i] = &OblResult{O: o, R: r, OK: ok, Script: filepath.Join(dir, fname+".smt2")}
		}(i)
	}
	wg.Wait()
	// second chance for undecided obligations: fewer workers (less contention), three times the budget
	var retry []int
	for i, r := range out {
		if !r.OK && (r.R.Status == "timeout" || r.R.Status == "unknown") && !obls[i].Vacuity && !obls[i].NoRetry {
			retry = append(retry, i)
		}
	}
	// (many undecided obligations at once mean the code or a contract is broken, not that the solvers need
	// more time: the long second chance is reserved for a handful)
	if len(retry) > 0 && len(retry) <= 10 {
		// case split on the last few merged branch atoms: the merged state of a function with a
		// switch is a big ite-DAG, each arm alone is straight-line. All cases unsat => unsat.
		splitScripts := map[int][]string{}
		for _, i := range retry {
			sp := obls[i].Splits
			if os.Getenv("GOVC_DEBUG_SPLIT") != "" {
				fmt.Fprintf(os.Stderr, "retry %s: %d split atoms\n", obls[i].Name, len(sp))
			}
			if len(sp) == 0 {
				continue
			}
			// a switch shows up as many atoms `x == const` on one x: split N+1 ways on those
			groups := map[int][]*smt.Term{}
			best := -1
			for _, a := range sp {
				if a.Op == "=" && len(a.Args) == 2 {
					x := a.Args[0]
					if x.IsConst() {
						x = a.Args[1]
					} else if !a.Args[1].IsConst() {
						continue
					}
					groups[x.ID] = append(groups[x.ID], a)
					if best < 0 || len(groups[x.ID]) > len(groups[best]) {
						best = x.ID
					}
				}
			}
			if best >= 0 && len(groups[best]) >= 3 && len(groups[best]) <= 40 {
				g := groups[best]
				var none []*smt.Term
				for _, a := range g {
					splitScripts[i] = append(splitScripts[i], smt.Script(append(append([]*smt.Term{}, final[i]...), a), nil, false))
					none = append(none, smt.Not(a))
				}
				splitScripts[i] = append(splitScripts[i], smt.Script(append(append([]*smt.Term{}, final[i]...), none...), nil, false))
				continue
			}
			if len(sp) > 4 {
				sp = sp[len(sp)-4:]
			}
			for m := 0; m < 1<<len(sp); m++ {
				as := append([]*smt.Term{}, final[i]...)
				for k, a := range sp {
					if m&(1<<k) != 0 {
						as = append(as, a)
					} else {
						as = append(as, smt.Not(a))
					}
				}
				splitScripts[i] = append(splitScripts[i], smt.Script(as, nil, false))
			}
		}
		var wg3 sync.WaitGroup
		sem3 := make(chan struct{}, workers)
		var mu sync.Mutex
		splitOK := map[int]bool{}
		splitSecs := map[int]float64{}
		for i, ss := range splitScripts {
			splitOK[i] = true
			for k, sc := range ss {
				wg3.Add(1)
				go func(i, k int, sc string) {
					defer wg3.Done()
					sem3 <- struct{}{}
					defer func() { <-sem3 }()
					mu.Lock()
					dead := !splitOK[i]
					mu.Unlock()
					if dead {
						return
					}
					r := smt.SolveRace(dir, fmt.Sprintf("o%05ds%d", i, k), sc, tmo)
					mu.Lock()
					if r.Status != "unsat" {
						splitOK[i] = false
					}
					if r.Secs > splitSecs[i] {
						splitSecs[i] = r.Secs
					}
					mu.Unlock()
				}(i, k, sc)
			}
		}
		wg3.Wait()
		var rest []int
		for _, i := range retry {
			if splitOK[i] {
				out[i].R = smt.Result{Status: "unsat", Backend: "z3-5.1.0|cvc5-1.0+split", Secs: out[i].R.Secs + splitSecs[i]}
				out[i].OK = true
			} else {
				rest = append(rest, i)
			}
		}
		retry = rest
		sem2 := make(chan struct{}, 4)
		var wg2 sync.WaitGroup
		for _, i := range retry {
			wg2.Add(1)
			go func(i int) {
				defer wg2.Done()
				sem2 <- struct{}{}
				defer func() { <-sem2 }()
				fname := fmt.Sprintf("o%05d", i)
				var r smt.Result
				if ground[i] != "" {
					r = smt.SolveRace(dir, fname+"g", ground[i], 3*tmo)
					if r.Status == "unsat" {
						r.Backend += "+inst"
					}
				}
				if r.Status != "unsat" {
					r2 := smt.Solve(dir, fname, scripts[i], 3*tmo)
					r2.Secs += r.Secs
					r = r2
				}
				r.Secs += out[i].R.Secs
				if r.Status == "unsat" || r.Status == "sat" {
					out[i].R = r
					out[i].OK = r.Status == "unsat"
				}
			}(i)
		}
		wg2.Wait()
	}
	return out
}

// verifyClosure: a contract on a function literal. The literal is executed on its own, from an
// ARBITRARY state of its captured variables (only the contract's requires are assumed) - which covers
// its use as a deferred function running after a panic at any point of the enclosing function - with
// recover() returning an arbitrary value. Clauses are Go expressions over the captured variables
// listed in the vars clause (by name).
func (e *Exec) verifyClosure(pkg *ssa.Package, c *Contract) {
	var parent *ssa.Function
	for fn := range ssautil.AllFunctions(e.W.Prog) {
		if fn.Pkg != pkg || fn.Name() != c.FuncName || fn.Parent() != nil {
			continue
		}
		if (c.Recv == nil) != (fn.Signature.Recv() == nil) {
			continue
		}
		if c.Recv != nil && !strings.HasSuffix(typeName(fn.Signature.Recv().Type()), strings.TrimPrefix(c.Recv.Type, "*")) {
			continue
		}
		parent = fn
	}
	if parent == nil {
		unsupported("closure contract: function %s not found", c.FuncName)
	}
	// source order of the literals
	anons := append([]*ssa.Function{}, parent.AnonFuncs...)
	sort.Slice(anons, func(i, j int) bool { return anons[i].Pos() < anons[j].Pos() })
	if c.Closure > len(anons) {
		unsupported("closure contract: %s has only %d function literals", c.FuncName, len(anons))
	}
	anon := anons[c.Closure-1]
	st := e.NewState()
	bindings := make([]*smt.Term, len(anon.FreeVars))
	cell := map[string]int{}
	for i, fv := range anon.FreeVars {
		a := e.freshVal(st, "fv."+fv.Name(), fv.Type())
		st.Assume(smt.Neq(a, NilAddr))
		e.assumeNotFresh(st, a, fv.Type(), e.alloc0)
		for j := 0; j < i; j++ {
			if e.W.SortOf(anon.FreeVars[j].Type()) == e.W.SortOf(fv.Type()) {
				st.Assume(smt.Neq(a, bindings[j])) // distinct variables
			}
		}
		bindings[i] = a
		cell[fv.Name()] = i
		// the captured variables are locals of the enclosing function: no callee can write them, so
		// they survive the havoc of a callee with unknown effects
		et := fv.Type().Underlying().(*types.Pointer).Elem()
		if _, isStruct := et.Underlying().(*types.Struct); !isStruct {
			key := cellKey(et)
			e.heapSort[key] = smt.Array(AddrS, e.W.SortOf(et))
			e.keepOnHavoc = append(e.keepOnHavoc, frameLoc{key, a})
		}
	}
	// the literal's own parameters are symbolic inputs; its named results can be mentioned in ensures
	params := e.symbolicArgs(st, anon.Params, nil)
	paramIdx := map[string]int{}
	for i, p := range anon.Params {
		paramIdx[p.Name()] = i
	}
	resIdx := map[string]int{}
	if rs := anon.Signature.Results(); rs != nil {
		for i := 0; i < rs.Len(); i++ {
			if n := rs.At(i).Name(); n != "" && n != "_" {
				resIdx[n] = i
			}
		}
	}
	var result *smt.Term
	argsFor := func(s *State) []*smt.Term {
		var as []*smt.Term
		for _, v := range c.ClosureVars {
			if i, ok := cell[v.Name]; ok {
				fv := anon.FreeVars[i]
				as = append(as, e.load(s, bindings[i], fv.Type().Underlying().(*types.Pointer).Elem()))
			} else if i, ok := paramIdx[v.Name]; ok {
				as = append(as, params[i])
			} else if i, ok := resIdx[v.Name]; ok {
				switch {
				case result == nil:
					as = append(as, e.W.Zero(anon.Signature.Results().At(i).Type())) // not yet known (requires must not use it)
				case anon.Signature.Results().Len() == 1:
					as = append(as, result)
				default:
					as = append(as, result.Args[i])
				}
			} else {
				unsupported("closure contract %s: %q is neither a captured variable, a parameter nor a named result of the literal", c.Display(), v.Name)
			}
		}
		return as
	}
	if c.NoSafety {
		e.noSafety++
		defer func() { e.noSafety-- }()
	}
	for k := range c.Requires {
		f := pkg.Func(fmt.Sprintf("verif_Q_%d_r%d", c.ID, k))
		if f == nil {
			unsupported("closure contract: spec function missing")
		}
		e.spec++
		tmp := st.Clone()
		v, _ := e.inlineCall(tmp, f, argsFor(st), nil, nil)
		e.spec--
		st.Assume(v)
	}
	e.recoverNondet = true
	res, out := e.runFunc(anon, params, bindings, st, nil)
	result = res
	e.recoverNondet = false
	if out == nil || out.Dead() {
		unsupported("closure %s has no normal exit", c.Display())
	}
	for k, cl := range c.Ensures {
		f := pkg.Func(fmt.Sprintf("verif_Q_%d_e%d", c.ID, k))
		e.spec++
		tmp := out.Clone()
		v, _ := e.inlineCall(tmp, f, argsFor(out), nil, nil)
		e.spec--
		n0 := len(e.Obls)
		e.check(out, "post", v, token.NoPos, clauseLabel(c.Ensures, k))
		for i := n0; i < len(e.Obls); i++ {
			e.Obls[i].Text = cl.Expr
			e.Obls[i].Pos = fmt.Sprintf("%s:%d", strings.TrimPrefix(cl.File, "/repo/"), cl.Line)
		}
	}
	e.Obls = append(e.Obls, &Obligation{Name: c.Display() + "/vacuity:end", Kind: "vacuity", Func: c.Display(),
		Hyp: e.hyp(out), Goal: smt.False, Vacuity: true, Props: c.Props, Text: "the literal's exit is reachable"})
}
