package main

import (
	"fmt"
	"os"

	"golang.org/x/tools/go/packages"
	"golang.org/x/tools/go/ssa"
	"golang.org/x/tools/go/ssa/ssautil"
)

func main() {
	cfg := &packages.Config{Mode: packages.LoadAllSyntax, Dir: "/repo", BuildFlags: []string{"-tags=verif"}}
	pkgs, err := packages.Load(cfg, os.Args[1])
	if err != nil {
		panic(err)
	}
	prog, spkgs := ssautil.AllPackages(pkgs, ssa.NaiveForm|ssa.InstantiateGenerics|ssa.GlobalDebug)
	prog.Build()
	for _, p := range spkgs {
		if p == nil {
			continue
		}
		for _, m := range p.Members {
			if t, ok := m.(*ssa.Type); ok {
				ms := prog.MethodSets.MethodSet(ptrTo(t))
				for i := 0; i < ms.Len(); i++ {
					f := prog.MethodValue(ms.At(i))
					if f != nil && f.Name() == os.Args[2] {
						f.WriteTo(os.Stdout)
					}
				}
			}
			if f, ok := m.(*ssa.Function); ok && f.Name() == os.Args[2] {
				f.WriteTo(os.Stdout)
			}
		}
	}
	fmt.Println("done")
}
