// govc: contract-based deductive verification for Go (go/ssa VC generation + SMT portfolio).
package main

import (
	"crypto/sha1"
	"encoding/json"
	"flag"
	"fmt"
	"os"
	"path/filepath"
	"regexp"
	"sort"
	"strconv"
	"strings"
	"time"

	"govc/engine"
	"govc/smt"

	"go/token"
	"go/types"

	"golang.org/x/tools/go/ssa"
	"golang.org/x/tools/go/ssa/ssautil"
)

type PropCfg struct {
	Title       string   `json:"title"`
	Packages    []string `json:"packages"`
	Sweep       []string `json:"sweep"`      // regexps over function names (shortFn form)
	SweepSkip   []string `json:"sweep_skip"` // regexps excluded
	NotDecided  string   `json:"not_decided"`
	Assumptions []string `json:"assumptions"`
	Level       string   `json:"level"`
	Struct      []StructCheck `json:"struct"`
}

// StructCheck: obligations decided from go/types without a solver.
type StructCheck struct {
	Kind     string   `json:"kind"`     // "declared-on" | "iface-classified"
	Pkg      string   `json:"pkg"`      // package path
	Type     string   `json:"type"`     // type name
	Methods  []string `json:"methods"`  // declared-on: must be declared on the type itself (not promoted)
	Mutating []string `json:"mutating"` // iface-classified: every interface method is in one of the two lists
	ReadOnly []string `json:"readonly"`
	Forbidden []string `json:"forbidden"` // no-calls: forbidden callee prefixes ("os.", "time.Now", ...)
	Writers   []string `json:"writers"`   // writes-only-in: functions (name substrings) allowed to write the type's fields
	Benign    []string `json:"benign"`    // writes-only-in: callees (name substrings) a field address may be passed to
	Callee    string   `json:"callee"`    // same-arg: callee name suffix
	ArgIndex  int      `json:"arg_index"` // same-arg: which argument
	Expect    string   `json:"expect"`    // same-arg: canonical form every caller must pass, e.g. "(> (len listeners) 0)"
}

type Finding struct {
	Property   string `json:"property"`
	Obligation string `json:"obligation"`
	Status     string `json:"status"` // "known" | "fixed"
	Commit     string `json:"commit,omitempty"`
	What       string `json:"what"`
}

func loadFindings(path string) []Finding {
	var out []Finding
	data, err := os.ReadFile(path)
	if err != nil {
		return nil
	}
	for _, ln := range strings.Split(string(data), "\n") {
		ln = strings.TrimSpace(ln)
		if ln == "" || strings.HasPrefix(ln, "#") {
			continue
		}
		var f Finding
		if json.Unmarshal([]byte(ln), &f) == nil {
			out = append(out, f)
		}
	}
	return out
}

func main() {
	if len(os.Args) < 2 {
		fmt.Fprintln(os.Stderr, "usage: govc check|list ...")
		os.Exit(2)
	}
	switch os.Args[1] {
	case "check":
		os.Exit(check(os.Args[2:]))
	case "dump":
		// govc dump <prop> <regexp>
		w, err := engine.Setup("/repo", []string{os.Args[2]}, nil)
		if err != nil {
			fmt.Fprintln(os.Stderr, err)
			os.Exit(2)
		}
		re := regexp.MustCompile(os.Args[3])
		for fn := range ssautil.AllFunctions(w.Prog) {
			if re.MatchString(fn.String()) {
				fn.WriteTo(os.Stdout)
			}
		}
	default:
		fmt.Fprintln(os.Stderr, "unknown command")
		os.Exit(2)
	}
}

func sanitize(s string) string {
	re := regexp.MustCompile(`[^A-Za-z0-9_.\-]+`)
	s = re.ReplaceAllString(s, "_")
	if len(s) > 120 {
		h := sha1.Sum([]byte(s))
		s = s[:100] + fmt.Sprintf("_%x", h[:4])
	}
	return s
}

func check(argv []string) int {
	fs := flag.NewFlagSet("check", flag.ExitOnError)
	prop := fs.String("prop", "", "property id")
	tier := fs.String("tier", "quick", "quick|thorough")
	repo := fs.String("repo", "/repo", "repository root")
	verif := fs.String("verif", "/verif", "verif root")
	only := fs.String("only", "", "regexp: only contracts/functions matching")
	updateBase := fs.Bool("update-baseline", false, "rewrite the sweep-ring baseline")
	keep := fs.Bool("keep", false, "keep SMT scripts")
	verbose := fs.Bool("v", false, "verbose")
	tmoFlag := fs.Int("timeout", 0, "per-obligation timeout seconds")
	noEvidence := fs.Bool("no-evidence", false, "do not write evidence (debug)")
	debugInst := fs.Bool("debug-inst", false, "print quantifier instantiation")
	fs.Parse(argv)
	smt.DebugInst = *debugInst
	if env := os.Getenv("VERIF_TIER"); env != "" && *tier == "" {
		*tier = env
	}
	seed := 0
	if s := os.Getenv("VERIF_SEED"); s != "" {
		seed, _ = strconv.Atoi(s)
	}
	t0 := time.Now()
	cfgs := map[string]*PropCfg{}
	if data, err := os.ReadFile(filepath.Join(*verif, "props.json")); err == nil {
		if err := json.Unmarshal(data, &cfgs); err != nil {
			fmt.Fprintln(os.Stderr, "props.json:", err)
			return 2
		}
	}
	cfg := cfgs[*prop]
	if cfg == nil {
		cfg = &PropCfg{}
	}
	tmo := 30 * time.Second
	if *tier == "thorough" {
		tmo = 120 * time.Second
		engine.Thorough = true
	}
	if *tmoFlag > 0 {
		tmo = time.Duration(*tmoFlag) * time.Second
	}
	w, err := engine.Setup(*repo, []string{*prop}, cfg.Packages)
	if err != nil {
		fmt.Fprintln(os.Stderr, "setup failed:", err)
		// a tree that no longer loads with the contracts is reported as a violation of the claim
		if !*noEvidence {
			writeFail(*verif, *prop, *tier, seed, "setup: "+err.Error(), time.Since(t0).Seconds())
		}
		fmt.Printf("VIOLATION property=%s replay=%s no-failing-input-found\n", *prop, filepath.Join(*verif, "evidence", "replay", *prop+"_setup.json"))
		return 1
	}
	var onlyRe *regexp.Regexp
	if *only != "" {
		onlyRe = regexp.MustCompile(*only)
	}
	var results []*engine.FuncResult
	var trusted []string
	for _, c := range w.ContractList {
		if !c.HasProp(*prop) {
			continue
		}
		if w.Pkgs[c.Pkg] == nil {
			continue
		}
		if c.Trusted || c.RecvIface {
			trusted = append(trusted, c.Display())
			continue
		}
		if c.NoVerify {
			continue
		}
		if onlyRe != nil && !onlyRe.MatchString(c.Display()) {
			continue
		}
		r := engine.VerifyContract(w, c)
		if *verbose {
			fmt.Fprintf(os.Stderr, "gen %-60s %4d obligations %.2fs %s\n", r.Name, len(r.Obls), r.GenSecs, r.OutOfReach)
		}
		results = append(results, r)
	}
	// sweep ring
	if len(cfg.Sweep) > 0 {
		var res, skip []*regexp.Regexp
		for _, s := range cfg.Sweep {
			res = append(res, regexp.MustCompile(s))
		}
		for _, s := range cfg.SweepSkip {
			skip = append(skip, regexp.MustCompile(s))
		}
		var fns []*ssa.Function
		for fn := range ssautil.AllFunctions(w.Prog) {
			if fn.Pkg == nil || !strings.HasPrefix(fn.Pkg.Pkg.Path(), engine.ModulePath) || len(fn.Blocks) == 0 {
				continue
			}
			if fn.Synthetic != "" || strings.Contains(fn.Name(), "verif_") {
				continue
			}
			name := engine.ShortFn(fn)
			m := false
			for _, r := range res {
				if r.MatchString(name) {
					m = true
				}
			}
			for _, r := range skip {
				if r.MatchString(name) {
					m = false
				}
			}
			if m && (onlyRe == nil || onlyRe.MatchString(name)) {
				fns = append(fns, fn)
			}
		}
		sort.Slice(fns, func(i, j int) bool { return engine.ShortFn(fns[i]) < engine.ShortFn(fns[j]) })
		for _, fn := range fns {
			if c := w.Contracts[fn]; c != nil && c.HasProp(*prop) && !c.Trusted {
				continue // already in the contract ring
			}
			r := engine.SweepFunction(w, fn, []string{*prop})
			if *verbose {
				fmt.Fprintf(os.Stderr, "sweep %-58s %4d obligations %.2fs %s\n", r.Name, len(r.Obls), r.GenSecs, r.OutOfReach)
			}
			results = append(results, r)
		}
	}
	structRes := runStructChecks(w, cfg.Struct)
	// classification
	findings := loadFindings(filepath.Join(*verif, "KNOWN_FINDINGS.jsonl"))
	known := map[string]Finding{}
	for _, f := range findings {
		if f.Property == *prop && f.Status == "known" {
			known[f.Obligation] = f
		}
	}
	basePath := filepath.Join(*verif, "baseline", *prop+".json")
	baseline := map[string]bool{}
	baseSeen := map[string]bool{} // every sweep obligation name seen on the pinned tree
	if data, err := os.ReadFile(basePath); err == nil {
		var bf struct {
			Claimed   []string `json:"claimed"`
			Unclaimed []string `json:"unclaimed"`
		}
		json.Unmarshal(data, &bf)
		for _, n := range bf.Claimed {
			baseline[n] = true
			baseSeen[n] = true
		}
		for _, n := range bf.Unclaimed {
			baseSeen[n] = true
		}
	}
	var all []*engine.Obligation
	owner := map[*engine.Obligation]*engine.FuncResult{}
	skippedUnclaimed := 0
	for _, r := range results {
		for _, o := range r.Obls {
			if _, isKnown := known[o.Name]; r.Ring == "sweep" && !*updateBase && baseSeen[o.Name] && !baseline[o.Name] && !isKnown {
				skippedUnclaimed++ // known not to discharge on the pinned tree: never claimed, not re-solved
				continue
			}
			all = append(all, o)
			owner[o] = r
		}
	}
	tmpdir, _ := os.MkdirTemp("", "govc-"+*prop+"-")
	if !*keep {
		defer os.RemoveAll(tmpdir)
	} else {
		fmt.Fprintln(os.Stderr, "scripts in", tmpdir)
	}
	genSecs := time.Since(t0).Seconds()
	if *keep {
		var ib strings.Builder
		for i, o := range all {
			fmt.Fprintf(&ib, "o%05d %s\n", i, o.Name)
		}
		os.WriteFile(filepath.Join(tmpdir, "index.txt"), []byte(ib.String()), 0o644)
	}
	for _, o := range all {
		if _, isKnown := known[o.Name]; isKnown {
			o.NoRetry = true
		}
	}
	ors := engine.Discharge(all, tmo, 16, tmpdir)

	type violation struct {
		Obl    string `json:"obligation"`
		Kind   string `json:"kind"`
		Func   string `json:"function"`
		Pos    string `json:"pos"`
		Text   string `json:"text"`
		Status string `json:"solver_status"`
		Model  string `json:"model,omitempty"`
		Output string `json:"solver_output,omitempty"`
		Why    string `json:"why"`
		Script string `json:"script,omitempty"`
		// replay against the real code (interpreter case contracts): the failing input, how it was run
		FailingInput json.RawMessage `json:"failing_input,omitempty"`
		ReplayCmd    string          `json:"replay_cmd,omitempty"`
		ReplayLog    string          `json:"replay_log,omitempty"`
	}
	var viols []violation
	var knownHit []Finding
	var undecidedThorough []string
	knownSeen := map[string]bool{}
	nObl, nOK := 0, 0
	nSweepClaimed, nSweepUnclaimed := 0, 0
	byBackend := map[string]int{}
	solverSecs := 0.0
	var samples []map[string]interface{}
	var newBaseline, newUnclaimed []string
	var undecidedSweep []string
	perFunc := map[string][2]int{}
	for _, or := range ors {
		o := or.O
		r := owner[o]
		solverSecs += or.R.Secs
		if r.Ring == "sweep" {
			if or.OK {
				newBaseline = append(newBaseline, o.Name)
			} else {
				newUnclaimed = append(newUnclaimed, o.Name)
			}
			if f, ok := known[o.Name]; ok && !or.OK && !*updateBase {
				if !knownSeen[o.Name] {
					knownHit = append(knownHit, f)
					knownSeen[o.Name] = true
				}
				continue
			}
			if !*updateBase && !baseline[o.Name] {
				nSweepUnclaimed++
				if !or.OK {
					undecidedSweep = append(undecidedSweep, o.Name+" ["+or.R.Status+"]")
				}
				// an obligation that did not exist on the pinned tree and has a counterexample
				// (only when the state was exact up to that point: after a havoc of unknown effects or a
				// loop summary a model need not be a real execution - that stays "undecided", not an alarm)
				if !or.OK && !baseSeen[o.Name] && or.R.Status == "sat" && !o.Vacuity && !o.Approx {
					if _, ok := known[o.Name]; !ok {
						v := violation{Obl: o.Name, Kind: o.Kind, Func: o.Func, Pos: o.Pos, Text: o.Text, Status: or.R.Status, Model: or.R.Model, Why: "new obligation (absent on the pinned tree) with a counterexample"}
						viols = append(viols, v)
					}
				}
				continue
			}
			nSweepClaimed++
		}
		nObl++
		pf := perFunc[r.Name]
		pf[0]++
		if or.OK {
			nOK++
			pf[1]++
			perFunc[r.Name] = pf
			byBackend[or.R.Backend]++
			if len(samples) < 12 && o.Kind != "vacuity" && (len(samples) < 6 || o.Kind == "post") {
				samples = append(samples, map[string]interface{}{"obligation": o.Name, "kind": o.Kind, "pos": o.Pos, "text": o.Text, "backend": or.R.Backend, "secs": or.R.Secs})
			}
			continue
		}
		perFunc[r.Name] = pf
		if f, ok := known[o.Name]; ok {
			if !knownSeen[o.Name] {
				knownHit = append(knownHit, f)
				knownSeen[o.Name] = true
			}
			nObl-- // listed separately, not part of the claim
			continue
		}
		if strings.Contains(o.Name, "@thorough") && (or.R.Status == "timeout" || or.R.Status == "unknown") {
			// thorough-only clause (minutes of solver time, at the edge of the budget): running out of time
			// is "not decided this run", never an alarm; a counter-model still is
			undecidedThorough = append(undecidedThorough, o.Name+" ["+or.R.Status+"]")
			nObl--
			continue
		}
		why := "obligation not discharged"
		if o.Vacuity {
			why = "vacuous contract: hypothesis unsatisfiable"
		}
		v := violation{Obl: o.Name, Kind: o.Kind, Func: o.Func, Pos: o.Pos, Text: o.Text, Status: or.R.Status, Model: or.R.Model, Why: why}
		if or.R.Status != "sat" {
			v.Output = trunc(or.R.Output, 2000)
		}
		// keep the script for replay
		if data, err := os.ReadFile(or.Script); err == nil && len(data) < 4<<20 {
			dst := filepath.Join(*verif, "evidence", "replay", *prop+"_"+sanitize(o.Name)+".smt2")
			os.MkdirAll(filepath.Dir(dst), 0o755)
			os.WriteFile(dst, data, 0o644)
			v.Script = dst
		}
		viols = append(viols, v)
	}
	for _, sr := range structRes {
		nObl++
		if sr.ok {
			nOK++
			byBackend["go/types"]++
			continue
		}
		if _, ok := known[sr.name]; ok {
			nObl--
			continue
		}
		viols = append(viols, violation{Obl: sr.name, Kind: "struct", Func: sr.name, Status: "failed", Why: sr.why, Text: sr.why})
	}
	var outOfReach []string
	for _, r := range results {
		if r.OutOfReach != "" {
			if r.Ring == "contract" {
				name := r.Name + "/subset"
				if _, ok := known[name]; ok {
					continue
				}
				viols = append(viols, violation{Obl: name, Kind: "subset", Func: r.Name, Status: "out-of-reach", Why: "function under contract left the verifiable subset: " + r.OutOfReach})
				nObl++
			} else {
				outOfReach = append(outOfReach, r.Name+": "+r.OutOfReach)
			}
		}
	}
	// claimed sweep obligations that disappeared together with their function count as lost proof only if the function still exists with fewer discharged obligations: handled by name match above.
	if *updateBase {
		sort.Strings(newBaseline)
		sort.Strings(newUnclaimed)
		os.MkdirAll(filepath.Dir(basePath), 0o755)
		data, _ := json.MarshalIndent(map[string][]string{"claimed": newBaseline, "unclaimed": newUnclaimed}, "", " ")
		os.WriteFile(basePath, data, 0o644)
		fmt.Fprintf(os.Stderr, "baseline %s: %d claimed obligations\n", basePath, len(newBaseline))
	}

	// output
	exit := 0
	// findings demonstrated on the real code (demo test under findings/) that no contract reaches:
	// listed, never suppressing anything
	for _, f := range findings {
		if f.Property == *prop && f.Status == "known" && strings.HasPrefix(f.Obligation, "demo:") {
			knownHit = append(knownHit, f)
		}
	}
	for _, f := range knownHit {
		fmt.Printf("KNOWN-FINDING: property=%s %s %s\n", *prop, f.Obligation, f.What)
	}
	// replay: failed case contracts of the interpreter main loop are run on the real code over
	// boundary-value inputs (engine/replay.go); the first input that violates the contract at run time
	// is attached to the violation
	caseRe := regexp.MustCompile(`callNativeFunc#([^/]+)/`)
	var failedCases []string
	seenCase := map[string]bool{}
	for _, v := range viols {
		if m := caseRe.FindStringSubmatch(v.Obl); m != nil && !seenCase[m[1]] {
			seenCase[m[1]] = true
			failedCases = append(failedCases, m[1])
		}
	}
	replayed := map[string]string{}
	replayLog := ""
	if len(failedCases) > 0 && len(failedCases) <= 40 {
		replayed, replayLog = engine.ReplayInterpreterCases(w, failedCases, tmpdir)
	}
	for _, v := range viols {
		if m := caseRe.FindStringSubmatch(v.Obl); m != nil {
			if in, ok := replayed[m[1]]; ok {
				v.FailingInput = json.RawMessage(in)
				v.ReplayCmd = "go test -tags verif -overlay <contract files + executable prelude + verif_replay_test.go> -run TestVerifReplay ./internal/engine/interpreter/ (in /repo; regenerated by: scripts/check.sh " + *prop + " quick)"
			} else {
				v.ReplayLog = trunc(replayLog, 1500)
			}
		}
		rp := filepath.Join(*verif, "evidence", "replay", *prop+"_"+sanitize(v.Obl)+".json")
		os.MkdirAll(filepath.Dir(rp), 0o755)
		data, _ := json.MarshalIndent(v, "", " ")
		os.WriteFile(rp, data, 0o644)
		suffix := " no-failing-input-found"
		if len(v.FailingInput) > 0 {
			suffix = "" // the replay file carries an input that violates the contract on the real code
		}
		fmt.Printf("VIOLATION property=%s replay=%s obligation=%s%s\n", *prop, rp, v.Obl, suffix)
		fmt.Printf("  %s %s: %s [%s]\n", v.Pos, v.Kind, v.Text, v.Status)
		exit = 1
	}
	if (len(results) == 0 && len(structRes) == 0) || nObl == 0 {
		fmt.Printf("VIOLATION property=%s replay=%s no-failing-input-found\n", *prop, "none")
		fmt.Println("  no obligations generated (vacuous run)")
		exit = 1
	}
	// evidence
	var funcs []string
	var fnNames []string
	for n := range perFunc {
		fnNames = append(fnNames, n)
	}
	sort.Strings(fnNames)
	for _, n := range fnNames {
		funcs = append(funcs, fmt.Sprintf("%s: %d/%d", n, perFunc[n][1], perFunc[n][0]))
	}
	abstracted := map[string]bool{}
	for _, r := range results {
		for _, a := range r.Abstracted {
			abstracted[a] = true
		}
	}
	var abs []string
	for a := range abstracted {
		abs = append(abs, a)
	}
	sort.Strings(abs)
	assumptions := append([]string{}, cfg.Assumptions...)
	assumptions = append(assumptions,
		"Go integers are modelled as fixed-width bit-vectors (int = 64 bit, GOARCH=amd64); no overflow is assumed away",
		"pointer parameters of functions under contract are assumed non-nil and not aliasing interior pointers unless the contract says maybe-nil",
		"termination is not proved",
		"data races / concurrent interleavings are not modelled (sequential semantics, sync primitives are no-ops)",
	)
	for _, t := range trusted {
		assumptions = append(assumptions, "trusted (assumed, not verified) contract: "+t)
	}
	for _, a := range abs {
		assumptions = append(assumptions, "abstracted callee (havoc of all heap state): "+a)
	}
	for _, n := range w.SortedNotes() {
		assumptions = append(assumptions, n)
	}
	if cfg.NotDecided != "" {
		assumptions = append(assumptions, "NOT DECIDED by this check: "+cfg.NotDecided)
	}
	var kf []string
	for _, f := range knownHit {
		kf = append(kf, f.Obligation+": "+f.What)
	}
	sort.Strings(undecidedSweep)
	if len(undecidedSweep) > 40 {
		undecidedSweep = append(undecidedSweep[:40], fmt.Sprintf("... and %d more", len(undecidedSweep)-40))
	}
	ev := map[string]interface{}{
		"property_id": *prop,
		"tier":        *tier,
		"seed":        seed,
		"level":       "proof",
		"wall_s":      time.Since(t0).Seconds(),
		"violations":  len(viols),
		"assumptions": assumptions,
		"coverage": map[string]interface{}{
			"obligations":              nObl,
			"discharged":               nOK,
			"checker_cmd":              fmt.Sprintf("/verif/bin/govc check -prop %s -tier %s", *prop, *tier),
			"trusted_base":             []string{"golang.org/x/tools go/packages + go/ssa (naive form) as front end", "govc VC generator (/verif/govc)", "SMT solvers z3 5.1.0, z3 4.8.12, cvc5 1.0 (portfolio, first definite answer)", "stdlib models in govc/engine/intrinsics.go", "Go memory safety and the Go runtime"},
			"functions_under_contract": funcs,
			"by_backend":               byBackend,
			"solver_seconds":           solverSecs,
			"vcgen_seconds":            genSecs,
			"samples":                  samples,
			"sweep_ring":               map[string]interface{}{"claimed": nSweepClaimed, "not_claimed": nSweepUnclaimed + skippedUnclaimed, "not_claimed_undecided": undecidedSweep, "out_of_reach": outOfReach},
			"known_findings":           kf,
			"undecided_thorough_only":  undecidedThorough,
			"per_obligation_timeout_s": tmo.Seconds(),
			"explanation":              "obligations = proof obligations generated from /repo's current SSA for the functions under contract (plus claimed sweep-ring safety obligations); discharged = those the SMT portfolio answered unsat (vacuity checks: sat)",
		},
	}
	if !*noEvidence {
		os.MkdirAll(filepath.Join(*verif, "evidence"), 0o755)
		data, _ := json.MarshalIndent(ev, "", " ")
		os.WriteFile(filepath.Join(*verif, "evidence", *prop+".json"), data, 0o644)
	}
	if *verbose || os.Getenv("GOVC_SLOW") != "" {
		type sl struct {
			n string
			s float64
			b string
		}
		var sls []sl
		for _, or := range ors {
			sls = append(sls, sl{or.O.Name, or.R.Secs, or.R.Backend + ":" + or.R.Status})
		}
		sort.Slice(sls, func(i, j int) bool { return sls[i].s > sls[j].s })
		for i := 0; i < len(sls) && i < 8; i++ {
			fmt.Fprintf(os.Stderr, "slow %6.1fs %-28s %s\n", sls[i].s, sls[i].b, sls[i].n)
		}
	}
	fmt.Printf("property=%s tier=%s functions=%d obligations=%d discharged=%d known-findings=%d violations=%d wall=%.1fs\n",
		*prop, *tier, len(results), nObl, nOK, len(knownHit), len(viols), time.Since(t0).Seconds())
	return exit
}

func trunc(s string, n int) string {
	if len(s) > n {
		return s[:n] + "..."
	}
	return s
}

func writeFail(verif, prop, tier string, seed int, msg string, wall float64) {
	ev := map[string]interface{}{
		"property_id": prop, "tier": tier, "seed": seed, "level": "proof", "wall_s": wall, "violations": 1,
		"coverage": map[string]interface{}{"obligations": 1, "discharged": 0, "checker_cmd": "/verif/bin/govc check -prop " + prop,
			"trusted_base": []string{}, "explanation": msg, "evaluations": 1, "distinct_nontrivial": 2},
	}
	os.MkdirAll(filepath.Join(verif, "evidence", "replay"), 0o755)
	data, _ := json.MarshalIndent(ev, "", " ")
	os.WriteFile(filepath.Join(verif, "evidence", prop+".json"), data, 0o644)
	os.WriteFile(filepath.Join(verif, "evidence", "replay", prop+"_setup.json"), []byte(fmt.Sprintf("{\"obligation\":\"setup\",\"error\":%q}", msg)), 0o644)
}

type structResult struct {
	name string
	ok   bool
	why  string
}

func runStructChecks(w *engine.World, checks []StructCheck) []structResult {
	var out []structResult
	for _, c := range checks {
		if c.Kind == "no-calls" {
			sp := w.Pkgs[c.Pkg]
			short := c.Pkg[strings.LastIndex(c.Pkg, "/")+1:]
			if sp == nil {
				out = append(out, structResult{"struct/" + short + "/no-calls", false, "package not loaded"})
				continue
			}
			bad := map[string]string{}
			nfn := 0
			for fn := range ssautil.AllFunctions(w.Prog) {
				if fn.Pkg != sp || strings.Contains(fn.Name(), "verif") {
					continue
				}
				if pos := w.Fset.Position(fn.Pos()); strings.Contains(pos.Filename, "verif_contracts") {
					continue
				}
				nfn++
				for _, b := range fn.Blocks {
					for _, in := range b.Instrs {
						cc, ok := in.(ssa.CallInstruction)
						if !ok {
							continue
						}
						callee := cc.Common().StaticCallee()
						if callee == nil {
							continue
						}
						name := callee.String()
						okCaller := false
						for _, a := range c.Writers { // allowed callers (calls-only-in reading of no-calls)
							if strings.Contains(engine.ShortFn(fn), a) {
								okCaller = true
							}
						}
						for _, f := range c.Forbidden {
							if strings.HasPrefix(name, f) && !okCaller {
								bad[f] = engine.ShortFn(fn) + " calls " + name
							}
						}
					}
				}
			}
			for _, f := range c.Forbidden {
				name := fmt.Sprintf("struct/%s/no-calls:%s", short, f)
				if why, isBad := bad[f]; isBad {
					out = append(out, structResult{name, false, why + ": outside the functions this call is reserved to"})
				} else {
					out = append(out, structResult{name, nfn > 0, "no functions scanned"})
				}
			}
			continue
		}
		if c.Kind == "writes-only-in" {
			out = append(out, writesOnlyIn(w, c)...)
			continue
		}
		if c.Kind == "same-arg" {
			out = append(out, sameArg(w, c)...)
			continue
		}
		if c.Kind == "no-copy" {
			out = append(out, noCopy(w, c))
			continue
		}
		pkg := w.PPkgs[c.Pkg]
		if pkg == nil {
			out = append(out, structResult{fmt.Sprintf("struct/%s.%s/%s", c.Pkg, c.Type, c.Kind), false, "package not loaded"})
			continue
		}
		obj := pkg.Types.Scope().Lookup(c.Type)
		if obj == nil {
			out = append(out, structResult{fmt.Sprintf("struct/%s.%s/%s", c.Pkg, c.Type, c.Kind), false, "type not found"})
			continue
		}
		short := c.Pkg[strings.LastIndex(c.Pkg, "/")+1:] + "." + c.Type
		switch c.Kind {
		case "declared-on":
			ms := types.NewMethodSet(types.NewPointer(obj.Type()))
			for _, m := range c.Methods {
				name := fmt.Sprintf("struct/%s/declared-on:%s", short, m)
				var sel *types.Selection
				for i := 0; i < ms.Len(); i++ {
					if ms.At(i).Obj().Name() == m {
						sel = ms.At(i)
					}
				}
				switch {
				case sel == nil:
					out = append(out, structResult{name, false, "method " + m + " not in the method set of *" + short})
				case len(sel.Index()) != 1:
					out = append(out, structResult{name, false, "method " + m + " of *" + short + " is promoted from an embedded value: requests pass through unfiltered"})
				default:
					out = append(out, structResult{name, true, ""})
				}
			}
		case "iface-classified":
			it, ok := obj.Type().Underlying().(*types.Interface)
			if !ok {
				out = append(out, structResult{fmt.Sprintf("struct/%s/iface-classified", short), false, "not an interface"})
				continue
			}
			known := map[string]bool{}
			for _, m := range c.Mutating {
				known[m] = true
			}
			for _, m := range c.ReadOnly {
				known[m] = true
			}
			for i := 0; i < it.NumMethods(); i++ {
				m := it.Method(i).Name()
				name := fmt.Sprintf("struct/%s/classified:%s", short, m)
				if known[m] {
					out = append(out, structResult{name, true, ""})
				} else {
					out = append(out, structResult{name, false, "interface method " + m + " is not classified as mutating or read-only: the read-only wrappers may pass it through"})
				}
			}
		}
	}
	return out
}

// writesOnlyIn: ownership / frame condition decided on the SSA of the whole package: the fields of the
// named struct type (state shared by every instance of a compiled module, say) are written - directly,
// through an element of a slice/array/map they hold, or by handing their address to a callee that is not
// listed as benign - only inside the listed functions. One obligation per field.
func writesOnlyIn(w *engine.World, c StructCheck) []structResult {
	short := c.Pkg[strings.LastIndex(c.Pkg, "/")+1:] + "." + c.Type
	sp := w.Pkgs[c.Pkg]
	if sp == nil {
		return []structResult{{"struct/" + short + "/writes-only-in", false, "package not loaded"}}
	}
	tn := sp.Type(c.Type)
	if tn == nil {
		return []structResult{{"struct/" + short + "/writes-only-in", false, "type not found"}}
	}
	st, ok := tn.Type().Underlying().(*types.Struct)
	if !ok {
		return []structResult{{"struct/" + short + "/writes-only-in", false, "not a struct"}}
	}
	bad := map[int][]string{}
	allowed := func(fn *ssa.Function) bool {
		f := fn
		for f.Parent() != nil {
			f = f.Parent()
		}
		n := engine.ShortFn(f)
		for _, a := range c.Writers {
			if strings.Contains(n, a) {
				return true
			}
		}
		return false
	}
	benign := func(name string) bool {
		for _, b := range c.Benign {
			if strings.Contains(name, b) {
				return true
			}
		}
		return false
	}
	var classify func(v ssa.Value, depth int) string
	classify = func(v ssa.Value, depth int) string {
		if depth > 6 || v.Referrers() == nil {
			return ""
		}
		for _, r := range *v.Referrers() {
			switch r := r.(type) {
			case *ssa.Store:
				if r.Addr == v {
					return "stores to it"
				}
				if _, isField := v.(*ssa.FieldAddr); r.Val == v && isField {
					// the address of a field itself is kept in a local variable: follow what is done with it
					if a, ok := r.Addr.(*ssa.Alloc); ok && a.Referrers() != nil {
						for _, ar := range *a.Referrers() {
							if ld, ok := ar.(*ssa.UnOp); ok && ld.Op == token.MUL {
								if why := classify(ld, depth+1); why != "" {
									return why
								}
							}
						}
					}
				}
			case *ssa.FieldAddr:
				if why := classify(r, depth+1); why != "" {
					return why
				}
			case *ssa.IndexAddr:
				if why := classify(r, depth+1); why != "" {
					return why
				}
			case *ssa.UnOp:
				if r.Op != token.MUL {
					continue
				}
				switch r.Type().Underlying().(type) {
				case *types.Slice, *types.Map:
					if r.Referrers() == nil {
						continue
					}
					for _, rr := range *r.Referrers() {
						switch rr := rr.(type) {
						case *ssa.IndexAddr:
							if why := classify(rr, depth+1); why != "" {
								return "writes an element of the slice it holds"
							}
						case *ssa.MapUpdate:
							if rr.Map == r {
								return "updates the map it holds"
							}
						}
					}
				}
			case ssa.CallInstruction:
				cc := r.Common()
				name := "(dynamic call)"
				if cal := cc.StaticCallee(); cal != nil {
					name = cal.String()
				} else if cc.IsInvoke() {
					name = cc.Method.FullName()
				}
				if !benign(name) {
					return "passes its address to " + name
				}
			}
		}
		return ""
	}
	nfa := 0
	for fn := range ssautil.AllFunctions(w.Prog) {
		if fn.Pkg != sp && !(fn.Parent() != nil && fn.Parent().Pkg == sp) {
			continue
		}
		if pos := w.Fset.Position(fn.Pos()); strings.Contains(pos.Filename, "verif_contracts") || strings.Contains(fn.Name(), "verif_") {
			continue
		}
		for _, b := range fn.Blocks {
			for _, in := range b.Instrs {
				fa, ok := in.(*ssa.FieldAddr)
				if !ok {
					continue
				}
				pt, ok := fa.X.Type().Underlying().(*types.Pointer)
				if !ok {
					continue
				}
				nt, ok := pt.Elem().(*types.Named)
				if !ok || nt.Obj() != tn.Object() {
					continue
				}
				nfa++
				if why := classify(fa, 0); why != "" && !allowed(fn) {
					bad[fa.Field] = append(bad[fa.Field], engine.ShortFn(fn)+" "+why)
				}
			}
		}
	}
	var out []structResult
	for i := 0; i < st.NumFields(); i++ {
		name := fmt.Sprintf("struct/%s/writes-only-in:%s", short, st.Field(i).Name())
		if len(bad[i]) > 0 {
			sort.Strings(bad[i])
			out = append(out, structResult{name, false, "written outside its owners: " + strings.Join(bad[i], "; ")})
		} else {
			out = append(out, structResult{name, nfa > 0, "no access to the type found"})
		}
	}
	return out
}

// sameArg: every listed caller passes, as the given argument of the callee, the same function of its own
// parameters (canonical form compared textually). Used where two code paths must derive a layout or key
// from the same inputs in the same way (e.g. compile and cache-load computing the module-context layout).
func sameArg(w *engine.World, c StructCheck) []structResult {
	short := c.Pkg[strings.LastIndex(c.Pkg, "/")+1:]
	sp := w.Pkgs[c.Pkg]
	if sp == nil {
		return []structResult{{"struct/" + short + "/same-arg", false, "package not loaded"}}
	}
	var canon func(v ssa.Value, depth int) string
	canon = func(v ssa.Value, depth int) string {
		if depth > 8 {
			return "..."
		}
		switch x := v.(type) {
		case *ssa.Const:
			return x.Value.ExactString()
		case *ssa.Parameter:
			return x.Name()
		case *ssa.UnOp:
			if x.Op == token.MUL {
				if a, ok := x.X.(*ssa.Alloc); ok {
					// a local / parameter cell of the naive form: follow its single definition
					var stores []*ssa.Store
					if a.Referrers() != nil {
						for _, r := range *a.Referrers() {
							if st, ok := r.(*ssa.Store); ok && st.Addr == a {
								stores = append(stores, st)
							}
						}
					}
					if len(stores) == 1 {
						return canon(stores[0].Val, depth+1)
					}
					return "several-definitions(" + a.Comment + ")"
				}
			}
			return "(" + x.Op.String() + " " + canon(x.X, depth+1) + ")"
		case *ssa.BinOp:
			return "(" + x.Op.String() + " " + canon(x.X, depth+1) + " " + canon(x.Y, depth+1) + ")"
		case *ssa.IndexAddr:
			return "(index " + canon(x.X, depth+1) + " " + canon(x.Index, depth+1) + ")"
		case *ssa.Convert:
			return canon(x.X, depth+1)
		case *ssa.FieldAddr:
			pt := x.X.Type().Underlying().(*types.Pointer).Elem().Underlying().(*types.Struct)
			return "(field " + pt.Field(x.Field).Name() + " " + canon(x.X, depth+1) + ")"
		case *ssa.Call:
			if cal := x.Call.StaticCallee(); cal != nil {
				as := []string{"call", cal.Name()}
				for _, a := range x.Call.Args {
					as = append(as, canon(a, depth+1))
				}
				return "(" + strings.Join(as, " ") + ")"
			}
			if b, ok := x.Call.Value.(*ssa.Builtin); ok {
				as := []string{b.Name()}
				for _, a := range x.Call.Args {
					as = append(as, canon(a, depth+1))
				}
				return "(" + strings.Join(as, " ") + ")"
			}
		}
		return "?" + v.Name()
	}
	var out []structResult
	for _, caller := range c.Writers {
		cn := c.Callee
		if i := strings.LastIndex(cn, "/"); i >= 0 {
			cn = cn[i+1:]
		}
		name := fmt.Sprintf("struct/%s/same-arg:%s@%s", short, strings.Trim(cn, "()*"), caller)
		found := 0
		why := ""
		for fn := range ssautil.AllFunctions(w.Prog) {
			if fn.Pkg != sp || !strings.HasSuffix(engine.ShortFn(fn), caller) {
				continue
			}
			for _, b := range fn.Blocks {
				for _, in := range b.Instrs {
					cc, ok := in.(ssa.CallInstruction)
					if !ok {
						continue
					}
					cal := cc.Common().StaticCallee()
					if cal == nil || !strings.HasSuffix(cal.String(), c.Callee) || c.ArgIndex >= len(cc.Common().Args) {
						continue
					}
					found++
					if got := canon(cc.Common().Args[c.ArgIndex], 0); !strings.Contains(got, c.Expect) {
						why = fmt.Sprintf("%s passes %s, which is not derived from %s", engine.ShortFn(fn), got, c.Expect)
					}
				}
			}
		}
		switch {
		case why != "":
			out = append(out, structResult{name, false, why})
		case found == 0:
			out = append(out, structResult{name, false, "no call of " + c.Callee + " found in " + caller})
		default:
			out = append(out, structResult{name, true, ""})
		}
	}
	return out
}

// noCopy: values of the named struct type are never copied (no instruction of the package yields a
// value of that type: no load of a whole struct, no by-value parameter, result or field). Objects that
// carry a finalizer or are referenced by address from machine code must keep their identity.
func noCopy(w *engine.World, c StructCheck) structResult {
	short := c.Pkg[strings.LastIndex(c.Pkg, "/")+1:] + "." + c.Type
	name := "struct/" + short + "/no-copy"
	sp := w.Pkgs[c.Pkg]
	if sp == nil {
		return structResult{name, false, "package not loaded"}
	}
	tn := sp.Type(c.Type)
	if tn == nil {
		return structResult{name, false, "type not found"}
	}
	isT := func(t types.Type) bool {
		nt, ok := t.(*types.Named)
		return ok && nt.Obj() == tn.Object()
	}
	// no struct of the package embeds it by value
	for _, m := range sp.Members {
		if t, ok := m.(*ssa.Type); ok {
			if st, ok := t.Type().Underlying().(*types.Struct); ok {
				for i := 0; i < st.NumFields(); i++ {
					if isT(st.Field(i).Type()) {
						return structResult{name, false, fmt.Sprintf("%s.%s holds a %s by value", t.Name(), st.Field(i).Name(), c.Type)}
					}
				}
			}
		}
	}
	n := 0
	for fn := range ssautil.AllFunctions(w.Prog) {
		if fn.Pkg != sp && !(fn.Parent() != nil && fn.Parent().Pkg == sp) {
			continue
		}
		if pos := w.Fset.Position(fn.Pos()); strings.Contains(pos.Filename, "verif_contracts") || strings.Contains(fn.Name(), "verif_") {
			continue
		}
		n++
		for _, p := range fn.Params {
			if isT(p.Type()) {
				return structResult{name, false, engine.ShortFn(fn) + " takes a " + c.Type + " by value"}
			}
		}
		for _, b := range fn.Blocks {
			for _, in := range b.Instrs {
				if v, ok := in.(ssa.Value); ok && isT(v.Type()) {
					if _, isAlloc := in.(*ssa.Alloc); !isAlloc {
						return structResult{name, false, fmt.Sprintf("%s copies a %s value (%s)", engine.ShortFn(fn), c.Type, w.Fset.Position(in.Pos()))}
					}
				}
			}
		}
	}
	return structResult{name, n > 0, "no functions scanned"}
}
