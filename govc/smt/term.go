// Package smt: hash-consed SMT terms with construction-time simplification.
package smt

import (
	"fmt"
	"math/bits"
	"sort"
	"strings"
)

type SortKind int

const (
	KBool SortKind = iota
	KBV
	KUnint // uninterpreted sort (Str, Func)
	KDT    // datatype
	KArray
	KTuple // Go-level only; never printed
	KBuiltin // interpreted sort printed verbatim (FloatingPoint, RoundingMode)
)

type DTField struct {
	Name string
	S    *Sort
}
type DTCtor struct {
	Name   string
	Fields []DTField
}

type Sort struct {
	Kind  SortKind
	W     int
	Name  string
	Idx   *Sort
	Elem  *Sort
	Ctors []DTCtor // for KDT
	Elems []*Sort  // for KTuple
}

var sortTab = map[string]*Sort{}

func (s *Sort) String() string {
	switch s.Kind {
	case KBool:
		return "Bool"
	case KBV:
		return fmt.Sprintf("(_ BitVec %d)", s.W)
	case KUnint, KDT:
		return Q(s.Name)
	case KArray:
		return "(Array " + s.Idx.String() + " " + s.Elem.String() + ")"
	case KTuple:
		return "<tuple>"
	case KBuiltin:
		return s.Name
	}
	return "?"
}

func Builtin(name string) *Sort {
	k := "b:" + name
	if s, ok := sortTab[k]; ok {
		return s
	}
	s := &Sort{Kind: KBuiltin, Name: name}
	sortTab[k] = s
	return s
}

// Q quotes a symbol for SMT-LIB if needed.
func Q(n string) string {
	simple := true
	for _, c := range n {
		if !(c >= 'a' && c <= 'z' || c >= 'A' && c <= 'Z' || c >= '0' && c <= '9' || strings.ContainsRune("_.!-$", c)) {
			simple = false
			break
		}
	}
	if simple && n != "" && !(n[0] >= '0' && n[0] <= '9') {
		return n
	}
	n = strings.ReplaceAll(n, "|", "!")
	n = strings.ReplaceAll(n, "\\", "!")
	return "|" + n + "|"
}

var Bool = &Sort{Kind: KBool}

func BV(w int) *Sort {
	k := fmt.Sprintf("bv%d", w)
	if s, ok := sortTab[k]; ok {
		return s
	}
	s := &Sort{Kind: KBV, W: w}
	sortTab[k] = s
	return s
}

func Unint(name string) *Sort {
	k := "u:" + name
	if s, ok := sortTab[k]; ok {
		return s
	}
	s := &Sort{Kind: KUnint, Name: name}
	sortTab[k] = s
	return s
}

func Array(idx, elem *Sort) *Sort {
	k := "a:" + idx.String() + ">" + elem.String()
	if s, ok := sortTab[k]; ok {
		return s
	}
	s := &Sort{Kind: KArray, Idx: idx, Elem: elem}
	sortTab[k] = s
	return s
}

// DT returns (creating if needed) the datatype sort with that name. Constructors
// can be filled later (for recursive types) with SetCtors.
func DT(name string) (*Sort, bool) {
	k := "d:" + name
	if s, ok := sortTab[k]; ok {
		return s, true
	}
	s := &Sort{Kind: KDT, Name: name}
	sortTab[k] = s
	return s, false
}

func Tuple(elems []*Sort) *Sort { return &Sort{Kind: KTuple, Elems: elems} }

// ---------------------------------------------------------------------------

type Term struct {
	Op   string
	Name string // var / uf / ctor / selector name
	Val  uint64 // bv const
	Args []*Term
	S    *Sort
	Aux  interface{} // Go-level payload (closures); not part of identity except via Name
	ID   int
	// HasBound: contains a bound (quantified) variable
	HasBound bool
	// Bound var sorts for quantifiers: Args[0..n-1] are bound vars, Args[n] body
	NB int
}

var (
	termTab = map[string]*Term{}
	nextID  = 1
)

func key(op, name string, val uint64, s *Sort, args []*Term) string {
	var b strings.Builder
	b.WriteString(op)
	b.WriteByte('\x00')
	b.WriteString(name)
	b.WriteByte('\x00')
	fmt.Fprintf(&b, "%d\x00%p", val, s)
	for _, a := range args {
		fmt.Fprintf(&b, ",%d", a.ID)
	}
	return b.String()
}

func mk(op, name string, val uint64, s *Sort, args ...*Term) *Term {
	k := key(op, name, val, s, args)
	if t, ok := termTab[k]; ok {
		return t
	}
	t := &Term{Op: op, Name: name, Val: val, S: s, Args: args, ID: nextID}
	nextID++
	for _, a := range args {
		if a.HasBound {
			t.HasBound = true
		}
	}
	if op == "bound" {
		t.HasBound = true
	}
	termTab[k] = t
	return t
}

// NextID is the id the next new term will get (terms with smaller ids already exist).
func NextID() int { return nextID }

// NumTerms reports how many distinct terms exist (diagnostics).
func NumTerms() int { return len(termTab) }

var (
	True  = mk("true", "", 0, Bool)
	False = mk("false", "", 0, Bool)
)

func BoolConst(b bool) *Term {
	if b {
		return True
	}
	return False
}

func mask(w int) uint64 {
	if w >= 64 {
		return ^uint64(0)
	}
	return (uint64(1) << uint(w)) - 1
}

func Const(w int, v uint64) *Term {
	if w > 64 {
		// wide constants: build by concat of 64-bit chunks (only zero-extension of v supported)
		return ZeroExt(Const(64, v), w)
	}
	return mk("const", "", v&mask(w), BV(w))
}

func Var(name string, s *Sort) *Term { return mk("var", name, 0, s) }

var freshCtr = map[string]int{}

// Fresh returns a new declared constant with a unique name derived from hint.
func Fresh(hint string, s *Sort) *Term {
	freshCtr[hint]++
	return Var(fmt.Sprintf("%s!%d", hint, freshCtr[hint]), s)
}

func BoundVar(name string, s *Sort) *Term { return mk("bound", name, 0, s) }

func (t *Term) IsConst() bool { return t.Op == "const" }
func (t *Term) IsTrue() bool  { return t == True }
func (t *Term) IsFalse() bool { return t == False }

func sext(v uint64, w int) int64 {
	if w >= 64 {
		return int64(v)
	}
	if v&(1<<uint(w-1)) != 0 {
		return int64(v | ^mask(w))
	}
	return int64(v)
}

// ---------------------------------------------------------------------------
// Boolean connectives

func Not(a *Term) *Term {
	switch {
	case a == True:
		return False
	case a == False:
		return True
	case a.Op == "not":
		return a.Args[0]
	}
	return mk("not", "", 0, Bool, a)
}

func And(as ...*Term) *Term {
	var out []*Term
	seen := map[int]bool{}
	var add func(t *Term) bool
	add = func(t *Term) bool {
		if t == True {
			return true
		}
		if t == False {
			return false
		}
		if t.Op == "and" {
			for _, x := range t.Args {
				if !add(x) {
					return false
				}
			}
			return true
		}
		if seen[t.ID] {
			return true
		}
		if t.Op == "not" && seen[t.Args[0].ID] {
			return false
		}
		seen[t.ID] = true
		out = append(out, t)
		return true
	}
	for _, a := range as {
		if !add(a) {
			return False
		}
	}
	// detect x and not x
	for _, t := range out {
		if t.Op == "not" && seen[t.Args[0].ID] {
			return False
		}
	}
	switch len(out) {
	case 0:
		return True
	case 1:
		return out[0]
	}
	return mk("and", "", 0, Bool, out...)
}

func Or(as ...*Term) *Term {
	var out []*Term
	seen := map[int]bool{}
	var add func(t *Term) bool
	add = func(t *Term) bool {
		if t == False {
			return true
		}
		if t == True {
			return false
		}
		if t.Op == "or" {
			for _, x := range t.Args {
				if !add(x) {
					return false
				}
			}
			return true
		}
		if seen[t.ID] {
			return true
		}
		seen[t.ID] = true
		out = append(out, t)
		return true
	}
	for _, a := range as {
		if !add(a) {
			return True
		}
	}
	for _, t := range out {
		if t.Op == "not" && seen[t.Args[0].ID] {
			return True
		}
	}
	// factor a common conjunct: (a&x)|(a&y) -> a&(x|y)   (keeps reach conditions small)
	if len(out) == 2 {
		if c, r0, r1, ok := commonPrefix(out[0], out[1]); ok {
			return And(c, Or(r0, r1))
		}
	}
	switch len(out) {
	case 0:
		return False
	case 1:
		return out[0]
	}
	return mk("or", "", 0, Bool, out...)
}

func conj(t *Term) []*Term {
	if t.Op == "and" {
		return t.Args
	}
	return []*Term{t}
}

func commonPrefix(a, b *Term) (c, ra, rb *Term, ok bool) {
	ca, cb := conj(a), conj(b)
	n := 0
	for n < len(ca) && n < len(cb) && ca[n] == cb[n] {
		n++
	}
	if n == 0 {
		return nil, nil, nil, false
	}
	return And(ca[:n]...), And(ca[n:]...), And(cb[n:]...), true
}

func Implies(a, b *Term) *Term { return Or(Not(a), b) }

func Ite(c, a, b *Term) *Term {
	if c == True {
		return a
	}
	if c == False {
		return b
	}
	if a == b {
		return a
	}
	if a.S != b.S && !(a.S.Kind == KTuple) {
		panic(fmt.Sprintf("ite sort mismatch %s vs %s", a.S, b.S))
	}
	if a.S.Kind == KTuple {
		args := make([]*Term, len(a.Args))
		for i := range a.Args {
			args[i] = Ite(c, a.Args[i], b.Args[i])
		}
		return TupleOf(args...)
	}
	if a.S == Bool {
		if a == True && b == False {
			return c
		}
		if a == False && b == True {
			return Not(c)
		}
		if a == True {
			return Or(c, b)
		}
		if a == False {
			return And(Not(c), b)
		}
		if b == True {
			return Or(Not(c), a)
		}
		if b == False {
			return And(c, a)
		}
	}
	if c.Op == "not" {
		return Ite(c.Args[0], b, a)
	}
	// ite(c, x, ite(c, y, z)) -> ite(c,x,z)
	if b.Op == "ite" && b.Args[0] == c {
		return Ite(c, a, b.Args[2])
	}
	if a.Op == "ite" && a.Args[0] == c {
		return Ite(c, a.Args[1], b)
	}
	// same constructor on both sides: push the ite inside (keeps projections simplifiable)
	if a.Op == "ctor" && b.Op == "ctor" && a.Name == b.Name {
		args := make([]*Term, len(a.Args))
		for i := range a.Args {
			args[i] = Ite(c, a.Args[i], b.Args[i])
		}
		return mk("ctor", a.Name, 0, a.S, args...)
	}
	return mk("ite", "", 0, a.S, c, a, b)
}

// ---------------------------------------------------------------------------
// Equality

// DistinctHook lets the client decide disequality of terms it knows more about.
var DistinctHook func(a, b *Term) bool

// Distinct reports whether a and b are syntactically provably different.
func Distinct(a, b *Term) bool {
	if a == b {
		return false
	}
	if DistinctHook != nil && a.Op == "ctor" && b.Op == "ctor" && DistinctHook(a, b) {
		return true
	}
	if a.Op == "const" && b.Op == "const" {
		return a.Val != b.Val
	}
	if a.Op == "ctor" && b.Op == "ctor" {
		if a.Name != b.Name {
			return true
		}
		for i := range a.Args {
			if Distinct(a.Args[i], b.Args[i]) {
				return true
			}
		}
		return false
	}
	if a.Op == "strlit" && b.Op == "strlit" {
		return a.Name != b.Name
	}
	// a function literal / declared function is never the nil function value
	if a.Op == "closure" && b.Op == "var" && b.Name == "fn!nil" || b.Op == "closure" && a.Op == "var" && a.Name == "fn!nil" {
		return true
	}
	// x + c1 vs x + c2
	ba, ca := splitAdd(a)
	bb, cb := splitAdd(b)
	if ba == bb && ca != cb {
		return true
	}
	return false
}

func splitAdd(t *Term) (*Term, uint64) {
	if t.Op == "bvadd" && len(t.Args) == 2 {
		if t.Args[1].Op == "const" {
			return t.Args[0], t.Args[1].Val
		}
		if t.Args[0].Op == "const" {
			return t.Args[1], t.Args[0].Val
		}
	}
	if t.Op == "const" {
		return nil, t.Val
	}
	return t, 0
}

func Eq(a, b *Term) *Term {
	if a == b {
		return True
	}
	if a.S.Kind == KTuple {
		var cs []*Term
		for i := range a.Args {
			cs = append(cs, Eq(a.Args[i], b.Args[i]))
		}
		return And(cs...)
	}
	if a.S != b.S {
		panic(fmt.Sprintf("eq sort mismatch %s vs %s (%s | %s)", a.S, b.S, a, b))
	}
	if Distinct(a, b) {
		return False
	}
	if a.S == Bool {
		if a == True {
			return b
		}
		if b == True {
			return a
		}
		if a == False {
			return Not(b)
		}
		if b == False {
			return Not(a)
		}
	}
	if a.Op == "ctor" && b.Op == "ctor" && a.Name == b.Name {
		var cs []*Term
		for i := range a.Args {
			cs = append(cs, Eq(a.Args[i], b.Args[i]))
		}
		return And(cs...)
	}
	// ite with constant-like arms compared to a constant: lift
	if b.Op == "ite" && (a.Op == "const" || a.Op == "ctor" || a.Op == "strlit") {
		a, b = b, a
	}
	if a.Op == "ite" && (b.Op == "const" || b.Op == "strlit" || (b.Op == "ctor" && len(b.Args) == 0)) && liftable(a, 6) {
		return Ite(a.Args[0], Eq(a.Args[1], b), Eq(a.Args[2], b))
	}
	if a.ID > b.ID {
		a, b = b, a
	}
	return mk("=", "", 0, Bool, a, b)
}

// liftable: ite-tree of depth<=d whose leaves are constants.
func liftable(t *Term, d int) bool {
	if t.Op == "const" || t.Op == "strlit" || (t.Op == "ctor" && len(t.Args) == 0) {
		return true
	}
	if t.Op == "ite" && d > 0 {
		return liftable(t.Args[1], d-1) && liftable(t.Args[2], d-1)
	}
	return false
}

func Neq(a, b *Term) *Term { return Not(Eq(a, b)) }

// ---------------------------------------------------------------------------
// Bit-vectors

func bin(op string, a, b *Term) *Term {
	if a.S != b.S {
		panic(fmt.Sprintf("%s sort mismatch %s vs %s", op, a.S, b.S))
	}
	return mk(op, "", 0, a.S, a, b)
}

func BVAdd(a, b *Term) *Term {
	w := a.S.W
	if a.IsConst() && b.IsConst() && w <= 64 {
		return Const(w, a.Val+b.Val)
	}
	if a.IsConst() {
		a, b = b, a
	}
	if b.IsConst() && b.Val == 0 {
		return a
	}
	// (x + c1) + c2
	if b.IsConst() && a.Op == "bvadd" && a.Args[1].IsConst() && w <= 64 {
		return BVAdd(a.Args[0], Const(w, a.Args[1].Val+b.Val))
	}
	// a + (g - a) = g
	if b.Op == "bvsub" && b.Args[1] == a {
		return b.Args[0]
	}
	if a.Op == "bvsub" && a.Args[1] == b {
		return a.Args[0]
	}
	return bin("bvadd", a, b)
}

func BVSub(a, b *Term) *Term {
	w := a.S.W
	if a.IsConst() && b.IsConst() && w <= 64 {
		return Const(w, a.Val-b.Val)
	}
	if b.IsConst() && w <= 64 {
		return BVAdd(a, Const(w, -b.Val))
	}
	if a == b {
		return Const(w, 0)
	}
	// (x + y) - x = y
	if a.Op == "bvadd" && len(a.Args) == 2 {
		if a.Args[0] == b {
			return a.Args[1]
		}
		if a.Args[1] == b {
			return a.Args[0]
		}
	}
	// (x + c) - x
	if ba, ca := splitAdd(a); ba != nil && ba == b && w <= 64 {
		return Const(w, ca)
	}
	if ba, ca := splitAdd(a); ba != nil && w <= 64 {
		if bb, cb := splitAdd(b); bb == ba {
			return Const(w, ca-cb)
		}
	}
	return bin("bvsub", a, b)
}

func BVMul(a, b *Term) *Term {
	w := a.S.W
	if a.IsConst() && b.IsConst() && w <= 64 {
		return Const(w, a.Val*b.Val)
	}
	if a.IsConst() {
		a, b = b, a
	}
	if b.IsConst() {
		if b.Val == 0 {
			return b
		}
		if b.Val == 1 {
			return a
		}
	}
	return bin("bvmul", a, b)
}

func BVNeg(a *Term) *Term {
	if a.IsConst() && a.S.W <= 64 {
		return Const(a.S.W, -a.Val)
	}
	return mk("bvneg", "", 0, a.S, a)
}
func BVNot(a *Term) *Term {
	if a.IsConst() && a.S.W <= 64 {
		return Const(a.S.W, ^a.Val)
	}
	if a.Op == "bvnot" {
		return a.Args[0]
	}
	return mk("bvnot", "", 0, a.S, a)
}
func BVAnd(a, b *Term) *Term {
	w := a.S.W
	if a.IsConst() && b.IsConst() && w <= 64 {
		return Const(w, a.Val&b.Val)
	}
	if a.IsConst() {
		a, b = b, a
	}
	if b.IsConst() && w <= 64 {
		if b.Val == 0 {
			return b
		}
		if b.Val == mask(w) {
			return a
		}
	}
	if a == b {
		return a
	}
	return bin("bvand", a, b)
}
func BVOr(a, b *Term) *Term {
	w := a.S.W
	if a.IsConst() && b.IsConst() && w <= 64 {
		return Const(w, a.Val|b.Val)
	}
	if a.IsConst() {
		a, b = b, a
	}
	if b.IsConst() && b.Val == 0 {
		return a
	}
	if a == b {
		return a
	}
	return bin("bvor", a, b)
}
func BVXor(a, b *Term) *Term {
	w := a.S.W
	if a.IsConst() && b.IsConst() && w <= 64 {
		return Const(w, a.Val^b.Val)
	}
	if a.IsConst() {
		a, b = b, a
	}
	if b.IsConst() && b.Val == 0 {
		return a
	}
	return bin("bvxor", a, b)
}

// BVUDiv etc. follow SMT-LIB semantics; Go-level div-by-zero is an obligation elsewhere.
func BVUDiv(a, b *Term) *Term {
	w := a.S.W
	if a.IsConst() && b.IsConst() && b.Val != 0 && w <= 64 {
		return Const(w, a.Val/b.Val)
	}
	if b.IsConst() && b.Val == 1 {
		return a
	}
	return bin("bvudiv", a, b)
}
func BVURem(a, b *Term) *Term {
	w := a.S.W
	if a.IsConst() && b.IsConst() && b.Val != 0 && w <= 64 {
		return Const(w, a.Val%b.Val)
	}
	return bin("bvurem", a, b)
}
func BVSDiv(a, b *Term) *Term {
	w := a.S.W
	if a.IsConst() && b.IsConst() && b.Val != 0 && w <= 64 {
		x, y := sext(a.Val, w), sext(b.Val, w)
		if !(y == -1) {
			return Const(w, uint64(x/y))
		}
		return Const(w, uint64(-x))
	}
	return bin("bvsdiv", a, b)
}
func BVSRem(a, b *Term) *Term {
	w := a.S.W
	if a.IsConst() && b.IsConst() && b.Val != 0 && w <= 64 {
		x, y := sext(a.Val, w), sext(b.Val, w)
		if y == -1 {
			return Const(w, 0)
		}
		return Const(w, uint64(x%y))
	}
	return bin("bvsrem", a, b)
}

func BVShl(a, b *Term) *Term {
	w := a.S.W
	if a.IsConst() && b.IsConst() && w <= 64 {
		if b.Val >= uint64(w) {
			return Const(w, 0)
		}
		return Const(w, a.Val<<b.Val)
	}
	if b.IsConst() && b.Val == 0 {
		return a
	}
	if b.IsConst() && w <= 64 {
		if b.Val >= uint64(w) {
			return Const(w, 0)
		}
		if a.Op == "bvshl" && a.Args[1].IsConst() {
			return BVShl(a.Args[0], Const(w, a.Args[1].Val+b.Val))
		}
	}
	return bin("bvshl", a, b)
}
func BVLshr(a, b *Term) *Term {
	w := a.S.W
	if a.IsConst() && b.IsConst() && w <= 64 {
		if b.Val >= uint64(w) {
			return Const(w, 0)
		}
		return Const(w, a.Val>>b.Val)
	}
	if b.IsConst() && b.Val == 0 {
		return a
	}
	if b.IsConst() && w <= 64 {
		if b.Val >= uint64(w) {
			return Const(w, 0)
		}
		if a.Op == "bvlshr" && a.Args[1].IsConst() {
			return BVLshr(a.Args[0], Const(w, a.Args[1].Val+b.Val))
		}
	}
	return bin("bvlshr", a, b)
}
func BVAshr(a, b *Term) *Term {
	w := a.S.W
	if a.IsConst() && b.IsConst() && w <= 64 {
		sh := b.Val
		if sh >= uint64(w) {
			sh = uint64(w - 1)
		}
		return Const(w, uint64(sext(a.Val, w)>>sh))
	}
	if b.IsConst() && b.Val == 0 {
		return a
	}
	return bin("bvashr", a, b)
}

func cmpLift(f func(a, b *Term) *Term, a, b *Term) (*Term, bool) {
	if a.Op == "ite" && b.IsConst() && liftable(a, 6) {
		return Ite(a.Args[0], f(a.Args[1], b), f(a.Args[2], b)), true
	}
	if b.Op == "ite" && a.IsConst() && liftable(b, 6) {
		return Ite(b.Args[0], f(a, b.Args[1]), f(a, b.Args[2])), true
	}
	return nil, false
}

func BVUlt(a, b *Term) *Term {
	if a.IsConst() && b.IsConst() {
		return BoolConst(a.Val < b.Val)
	}
	if a == b {
		return False
	}
	if b.IsConst() && b.Val == 0 {
		return False
	}
	if t, ok := cmpLift(BVUlt, a, b); ok {
		return t
	}
	return mk("bvult", "", 0, Bool, a, b)
}
func BVUle(a, b *Term) *Term {
	if a.IsConst() && b.IsConst() {
		return BoolConst(a.Val <= b.Val)
	}
	if a == b {
		return True
	}
	if a.IsConst() && a.Val == 0 {
		return True
	}
	if t, ok := cmpLift(BVUle, a, b); ok {
		return t
	}
	return mk("bvule", "", 0, Bool, a, b)
}
func BVSlt(a, b *Term) *Term {
	if a.IsConst() && b.IsConst() {
		return BoolConst(sext(a.Val, a.S.W) < sext(b.Val, b.S.W))
	}
	if a == b {
		return False
	}
	if t, ok := cmpLift(BVSlt, a, b); ok {
		return t
	}
	return mk("bvslt", "", 0, Bool, a, b)
}
func BVSle(a, b *Term) *Term {
	if a.IsConst() && b.IsConst() {
		return BoolConst(sext(a.Val, a.S.W) <= sext(b.Val, b.S.W))
	}
	if a == b {
		return True
	}
	if t, ok := cmpLift(BVSle, a, b); ok {
		return t
	}
	return mk("bvsle", "", 0, Bool, a, b)
}

func ZeroExt(a *Term, w int) *Term {
	if w == a.S.W {
		return a
	}
	if w < a.S.W {
		return Extract(a, w-1, 0)
	}
	if a.IsConst() && w <= 64 {
		return Const(w, a.Val)
	}
	if a.Op == "zero_extend" {
		return ZeroExt(a.Args[0], w)
	}
	if a.Op == "ite" && liftable(a, 6) {
		return Ite(a.Args[0], ZeroExt(a.Args[1], w), ZeroExt(a.Args[2], w))
	}
	return mk("zero_extend", "", uint64(w-a.S.W), BV(w), a)
}
func SignExt(a *Term, w int) *Term {
	if w == a.S.W {
		return a
	}
	if w < a.S.W {
		return Extract(a, w-1, 0)
	}
	if a.IsConst() && w <= 64 {
		return Const(w, uint64(sext(a.Val, a.S.W)))
	}
	if a.Op == "ite" && liftable(a, 6) {
		return Ite(a.Args[0], SignExt(a.Args[1], w), SignExt(a.Args[2], w))
	}
	return mk("sign_extend", "", uint64(w-a.S.W), BV(w), a)
}
func Extract(a *Term, hi, lo int) *Term {
	w := hi - lo + 1
	if lo == 0 && w == a.S.W {
		return a
	}
	if a.IsConst() && a.S.W <= 64 {
		return Const(w, a.Val>>uint(lo))
	}
	if (a.Op == "zero_extend" || a.Op == "sign_extend") && hi < a.Args[0].S.W {
		return Extract(a.Args[0], hi, lo)
	}
	if a.Op == "zero_extend" && lo >= a.Args[0].S.W {
		return Const(w, 0)
	}
	if a.Op == "zero_extend" && lo == 0 && hi >= a.Args[0].S.W {
		return ZeroExt(a.Args[0], w)
	}
	if a.Op == "concat" {
		lw := a.Args[1].S.W
		if hi < lw {
			return Extract(a.Args[1], hi, lo)
		}
		if lo >= lw {
			return Extract(a.Args[0], hi-lw, lo-lw)
		}
	}
	if a.Op == "extract" {
		l2 := int(a.Val & 0xffffffff)
		return Extract(a.Args[0], hi+l2, lo+l2)
	}
	if a.Op == "ite" && liftable(a, 6) {
		return Ite(a.Args[0], Extract(a.Args[1], hi, lo), Extract(a.Args[2], hi, lo))
	}
	return mk("extract", "", uint64(hi)<<32|uint64(lo), BV(w), a)
}
func Concat(hi, lo *Term) *Term {
	w := hi.S.W + lo.S.W
	if hi.IsConst() && lo.IsConst() && w <= 64 {
		return Const(w, hi.Val<<uint(lo.S.W)|lo.Val)
	}
	if hi.IsConst() && hi.Val == 0 && hi.S.W <= 64 {
		return ZeroExt(lo, w)
	}
	return mk("concat", "", 0, BV(w), hi, lo)
}

// Popcount etc. helper for const folding used by intrinsics.
func OnesCount64(v uint64) int     { return bits.OnesCount64(v) }
func TrailingZeros64(v uint64) int { return bits.TrailingZeros64(v) }

// ---------------------------------------------------------------------------
// Arrays

func Select(a, i *Term) *Term {
	for {
		switch a.Op {
		case "store":
			if a.Args[1] == i {
				return a.Args[2]
			}
			if Distinct(a.Args[1], i) {
				a = a.Args[0]
				continue
			}
		case "constarr":
			return a.Args[0]
		}
		break
	}
	if a.Op == "ite" && (a.Args[1].Op == "store" || a.Args[2].Op == "store" || a.Args[1].Op == "constarr" || a.Args[2].Op == "constarr") {
		x, y := Select(a.Args[1], i), Select(a.Args[2], i)
		return Ite(a.Args[0], x, y)
	}
	return mk("select", "", 0, a.S.Elem, a, i)
}

func Store(a, i, v *Term) *Term {
	if a.S.Idx != i.S || a.S.Elem != v.S {
		panic(fmt.Sprintf("store sort mismatch: arr %s idx %s val %s", a.S, i.S, v.S))
	}
	if a.Op == "store" && a.Args[1] == i {
		return Store(a.Args[0], i, v)
	}
	if v.Op == "select" && v.Args[0] == a && v.Args[1] == i {
		return a
	}
	return mk("store", "", 0, a.S, a, i, v)
}

func ConstArr(s *Sort, v *Term) *Term { return mk("constarr", "", 0, s, v) }

// ---------------------------------------------------------------------------
// Datatypes, UFs, tuples, quantifiers

func Ctor(s *Sort, name string, args ...*Term) *Term {
	return mk("ctor", name, 0, s, args...)
}

// Sel applies selector number fi of constructor cname.
func Sel(s *Sort, cname string, fi int, a *Term) *Term {
	var c *DTCtor
	for i := range s.Ctors {
		if s.Ctors[i].Name == cname {
			c = &s.Ctors[i]
		}
	}
	if c == nil {
		panic("no ctor " + cname + " in " + s.Name)
	}
	if a.Op == "ctor" && a.Name == cname {
		return a.Args[fi]
	}
	if a.Op == "ite" {
		x, y := a.Args[1], a.Args[2]
		if (x.Op == "ctor" || x.Op == "ite") && (y.Op == "ctor" || y.Op == "ite") {
			return Ite(a.Args[0], Sel(s, cname, fi, x), Sel(s, cname, fi, y))
		}
	}
	return mk("sel", c.Fields[fi].Name, 0, c.Fields[fi].S, a)
}

func Is(cname string, a *Term) *Term {
	if a.Op == "ctor" {
		return BoolConst(a.Name == cname)
	}
	if a.Op == "ite" {
		x, y := a.Args[1], a.Args[2]
		if (x.Op == "ctor" || x.Op == "ite") && (y.Op == "ctor" || y.Op == "ite") {
			return Ite(a.Args[0], Is(cname, x), Is(cname, y))
		}
	}
	if len(a.S.Ctors) == 1 {
		return True
	}
	return mk("is", cname, 0, Bool, a)
}

type UF struct {
	Name string
	Args []*Sort
	Ret  *Sort
}

var UFs = map[string]*UF{}

func App(name string, ret *Sort, args ...*Term) *Term {
	if _, ok := UFs[name]; !ok {
		u := &UF{Name: name, Ret: ret}
		for _, a := range args {
			u.Args = append(u.Args, a.S)
		}
		UFs[name] = u
	}
	return mk("app", name, 0, ret, args...)
}

// Raw builds an interpreted SMT-LIB application by operator text (fp ops etc.).
func Raw(op string, ret *Sort, args ...*Term) *Term {
	return mk("raw", op, 0, ret, args...)
}

func StrLit(s *Sort, lit string) *Term { return mk("strlit", lit, 0, s) }

func TupleOf(args ...*Term) *Term {
	ss := make([]*Sort, len(args))
	for i, a := range args {
		ss[i] = a.S
	}
	t := &Term{Op: "tuple", Args: args, S: Tuple(ss), ID: nextID}
	nextID++
	return t
}

func Closure(fn interface{}, name string, s *Sort, bindings ...*Term) *Term {
	t := mk("closure", name, 0, s, bindings...)
	t.Aux = fn
	return t
}

var qdepthCache = map[int]int{}

// quantDepth: nesting depth of quantifiers inside t.
func quantDepth(t *Term) int {
	if !HasQuant(t) {
		return 0
	}
	if d, ok := qdepthCache[t.ID]; ok {
		return d
	}
	d := 0
	for _, a := range t.Args {
		if x := quantDepth(a); x > d {
			d = x
		}
	}
	if t.Op == "forall" {
		d++
	}
	qdepthCache[t.ID] = d
	return d
}

func Forall(vars []*Term, body *Term) *Term {
	if body == True || body == False {
		return body
	}
	if len(vars) == 0 {
		return body
	}
	// canonical bound-variable names (by nesting depth) make alpha-equivalent formulas identical
	{
		d := quantDepth(body)
		m := map[*Term]*Term{}
		nv := make([]*Term, len(vars))
		for i, v := range vars {
			c := BoundVar(fmt.Sprintf("bv!%d!%d", d, i), v.S)
			nv[i] = c
			if c != v {
				m[v] = c
			}
		}
		if len(m) > 0 {
			body = Subst(body, m)
			vars = nv
		}
	}
	args := append(append([]*Term{}, vars...), body)
	t := mk("forall", "", uint64(len(vars)), Bool, args...)
	t.NB = len(vars)
	// a closed quantifier has no free bound vars unless nested ones remain
	t.HasBound = hasFreeBound(body, vars)
	return t
}

func Exists(vars []*Term, body *Term) *Term {
	return Not(Forall(vars, Not(body)))
}

func hasFreeBound(t *Term, bound []*Term) bool {
	if !t.HasBound {
		return false
	}
	seen := map[int]bool{}
	var walk func(t *Term, bs []*Term) bool
	walk = func(t *Term, bs []*Term) bool {
		if !t.HasBound {
			return false
		}
		if t.Op == "bound" {
			for _, b := range bs {
				if b == t {
					return false
				}
			}
			return true
		}
		if t.Op == "forall" {
			nbs := append(append([]*Term{}, bs...), t.Args[:t.NB]...)
			return walk(t.Args[t.NB], nbs)
		}
		if len(bs) == len(bound) && seen[t.ID] {
			return false
		}
		for _, a := range t.Args {
			if walk(a, bs) {
				return true
			}
		}
		if len(bs) == len(bound) {
			seen[t.ID] = true
		}
		return false
	}
	return walk(t, bound)
}

// Subst replaces terms per the map (used for quantifier instantiation / bound vars).
func Subst(t *Term, m map[*Term]*Term) *Term {
	cache := map[*Term]*Term{}
	var rec func(t *Term) *Term
	rec = func(t *Term) *Term {
		if r, ok := m[t]; ok {
			return r
		}
		if len(t.Args) == 0 {
			return t
		}
		if r, ok := cache[t]; ok {
			return r
		}
		args := make([]*Term, len(t.Args))
		changed := false
		for i, a := range t.Args {
			args[i] = rec(a)
			if args[i] != a {
				changed = true
			}
		}
		r := t
		if changed {
			r = Rebuild(t, args)
		}
		cache[t] = r
		return r
	}
	return rec(t)
}

// Rebuild re-applies the operator of t to new args through the simplifying constructors.
func Rebuild(t *Term, a []*Term) *Term {
	switch t.Op {
	case "not":
		return Not(a[0])
	case "and":
		return And(a...)
	case "or":
		return Or(a...)
	case "ite":
		return Ite(a[0], a[1], a[2])
	case "=":
		return Eq(a[0], a[1])
	case "bvadd":
		return BVAdd(a[0], a[1])
	case "bvsub":
		return BVSub(a[0], a[1])
	case "bvmul":
		return BVMul(a[0], a[1])
	case "bvneg":
		return BVNeg(a[0])
	case "bvnot":
		return BVNot(a[0])
	case "bvand":
		return BVAnd(a[0], a[1])
	case "bvor":
		return BVOr(a[0], a[1])
	case "bvxor":
		return BVXor(a[0], a[1])
	case "bvudiv":
		return BVUDiv(a[0], a[1])
	case "bvurem":
		return BVURem(a[0], a[1])
	case "bvsdiv":
		return BVSDiv(a[0], a[1])
	case "bvsrem":
		return BVSRem(a[0], a[1])
	case "bvshl":
		return BVShl(a[0], a[1])
	case "bvlshr":
		return BVLshr(a[0], a[1])
	case "bvashr":
		return BVAshr(a[0], a[1])
	case "bvult":
		return BVUlt(a[0], a[1])
	case "bvule":
		return BVUle(a[0], a[1])
	case "bvslt":
		return BVSlt(a[0], a[1])
	case "bvsle":
		return BVSle(a[0], a[1])
	case "zero_extend":
		return ZeroExt(a[0], t.S.W)
	case "sign_extend":
		return SignExt(a[0], t.S.W)
	case "extract":
		return Extract(a[0], int(t.Val>>32), int(t.Val&0xffffffff))
	case "concat":
		return Concat(a[0], a[1])
	case "select":
		return Select(a[0], a[1])
	case "store":
		return Store(a[0], a[1], a[2])
	case "sel":
		// find ctor/field index
		s := a[0].S
		for _, c := range s.Ctors {
			for fi, f := range c.Fields {
				if f.Name == t.Name {
					return Sel(s, c.Name, fi, a[0])
				}
			}
		}
	case "is":
		return Is(t.Name, a[0])
	case "forall":
		return Forall(a[:t.NB], a[t.NB])
	case "tuple":
		return TupleOf(a...)
	}
	r := mk(t.Op, t.Name, t.Val, t.S, a...)
	r.Aux = t.Aux
	r.NB = t.NB
	return r
}

// String renders a term inline (debugging / small terms).
func (t *Term) String() string {
	var b strings.Builder
	writeTerm(&b, t, nil)
	return b.String()
}

func writeTerm(b *strings.Builder, t *Term, names map[int]string) {
	if names != nil {
		if n, ok := names[t.ID]; ok {
			b.WriteString(n)
			return
		}
	}
	switch t.Op {
	case "true", "false":
		b.WriteString(t.Op)
	case "const":
		w := t.S.W
		if w%4 == 0 {
			fmt.Fprintf(b, "#x%0*x", w/4, t.Val)
		} else {
			fmt.Fprintf(b, "#b%0*b", w, t.Val)
		}
	case "var", "bound":
		b.WriteString(Q(t.Name))
	case "strlit":
		b.WriteString(Q("str:" + t.Name))
	case "closure":
		b.WriteString(Q("fn:" + t.Name))
		if len(t.Args) > 0 {
			// closures with bindings are represented opaquely by id
			fmt.Fprintf(b, "")
		}
	case "zero_extend", "sign_extend":
		fmt.Fprintf(b, "((_ %s %d) ", t.Op, t.Val)
		writeTerm(b, t.Args[0], names)
		b.WriteString(")")
	case "extract":
		fmt.Fprintf(b, "((_ extract %d %d) ", t.Val>>32, t.Val&0xffffffff)
		writeTerm(b, t.Args[0], names)
		b.WriteString(")")
	case "constarr":
		fmt.Fprintf(b, "((as const %s) ", t.S)
		writeTerm(b, t.Args[0], names)
		b.WriteString(")")
	case "ctor":
		if len(t.Args) == 0 {
			if len(t.S.Ctors) > 0 {
				fmt.Fprintf(b, "(as %s %s)", Q(t.Name), t.S)
			} else {
				b.WriteString(Q(t.Name))
			}
			return
		}
		b.WriteString("(" + Q(t.Name))
		for _, a := range t.Args {
			b.WriteByte(' ')
			writeTerm(b, a, names)
		}
		b.WriteString(")")
	case "sel", "app":
		if len(t.Args) == 0 {
			b.WriteString(Q(t.Name))
			return
		}
		b.WriteString("(" + Q(t.Name))
		for _, a := range t.Args {
			b.WriteByte(' ')
			writeTerm(b, a, names)
		}
		b.WriteString(")")
	case "raw":
		b.WriteString("(" + t.Name)
		for _, a := range t.Args {
			b.WriteByte(' ')
			writeTerm(b, a, names)
		}
		b.WriteString(")")
	case "is":
		fmt.Fprintf(b, "((_ is %s) ", Q(t.Name))
		writeTerm(b, t.Args[0], names)
		b.WriteString(")")
	case "forall":
		b.WriteString("(forall (")
		for _, v := range t.Args[:t.NB] {
			fmt.Fprintf(b, "(%s %s)", Q(v.Name), v.S)
		}
		b.WriteString(") ")
		writeTerm(b, t.Args[t.NB], names)
		b.WriteString(")")
	case "tuple":
		b.WriteString("<tuple")
		for _, a := range t.Args {
			b.WriteByte(' ')
			writeTerm(b, a, names)
		}
		b.WriteString(">")
	default:
		b.WriteString("(" + t.Op)
		for _, a := range t.Args {
			b.WriteByte(' ')
			writeTerm(b, a, names)
		}
		b.WriteString(")")
	}
}

// SortedKeys helper.
func SortedKeys[V any](m map[string]V) []string {
	ks := make([]string, 0, len(m))
	for k := range m {
		ks = append(ks, k)
	}
	sort.Strings(ks)
	return ks
}

var quantCache = map[int]bool{}

// HasQuant reports whether t contains a quantifier.
func HasQuant(t *Term) bool {
	if v, ok := quantCache[t.ID]; ok {
		return v
	}
	r := t.Op == "forall"
	if !r {
		for _, a := range t.Args {
			if HasQuant(a) {
				r = true
				break
			}
		}
	}
	quantCache[t.ID] = r
	return r
}

// Short renders at most n characters of t (safe on huge DAGs).
func (t *Term) Short(n int) string {
	var b strings.Builder
	var rec func(t *Term) bool
	rec = func(t *Term) bool {
		if b.Len() > n {
			return false
		}
		if len(t.Args) == 0 || t.Op == "const" {
			writeTerm(&b, t, nil)
			return true
		}
		name := t.Op
		if t.Name != "" {
			name = t.Name
		}
		b.WriteString("(" + name)
		for _, a := range t.Args {
			b.WriteByte(' ')
			if !rec(a) {
				return false
			}
		}
		b.WriteString(")")
		return true
	}
	rec(t)
	s := b.String()
	if len(s) > n {
		s = s[:n] + "..."
	}
	return s
}
