package smt

import (
	"fmt"
	"sort"
	"strings"
)

// Script renders a satisfiability query: assert all of asserts, check-sat, and get-value of
// the given terms (only leaf vars are useful there).
func Script(asserts []*Term, values []*Term, produceModels bool) string {
	var b strings.Builder
	if produceModels {
		b.WriteString("(set-option :produce-models true)\n")
	}
	b.WriteString("(set-logic ALL)\n")

	// collect
	refs := map[int]int{}
	var order []*Term
	seen := map[int]bool{}
	sorts := map[*Sort]bool{}
	var addSort func(s *Sort)
	var dtOrder []*Sort
	addSort = func(s *Sort) {
		if s == nil || sorts[s] {
			return
		}
		sorts[s] = true
		switch s.Kind {
		case KArray:
			addSort(s.Idx)
			addSort(s.Elem)
		case KDT:
			for _, c := range s.Ctors {
				for _, f := range c.Fields {
					if f.S != s {
						addSort(f.S)
					}
				}
			}
			dtOrder = append(dtOrder, s)
		case KUnint:
			dtOrder = append(dtOrder, s)
		}
	}
	var walk func(t *Term)
	walk = func(t *Term) {
		refs[t.ID]++
		if seen[t.ID] {
			return
		}
		seen[t.ID] = true
		addSort(t.S)
		for _, a := range t.Args {
			walk(a)
		}
		order = append(order, t)
	}
	for _, a := range asserts {
		walk(a)
	}
	for _, v := range values {
		walk(v)
	}
	for _, s := range dtOrder {
		if s.Kind == KUnint {
			fmt.Fprintf(&b, "(declare-sort %s 0)\n", Q(s.Name))
			continue
		}
		fmt.Fprintf(&b, "(declare-datatypes ((%s 0)) ((", Q(s.Name))
		for _, c := range s.Ctors {
			fmt.Fprintf(&b, "(%s", Q(c.Name))
			for _, f := range c.Fields {
				fmt.Fprintf(&b, " (%s %s)", Q(f.Name), f.S)
			}
			b.WriteString(")")
		}
		b.WriteString(")))\n")
	}
	// declarations
	ufs := map[string]bool{}
	var strlits, closures []*Term
	var decls []string
	for _, t := range order {
		switch t.Op {
		case "var":
			decls = append(decls, fmt.Sprintf("(declare-fun %s () %s)\n", Q(t.Name), t.S))
		case "strlit":
			strlits = append(strlits, t)
			decls = append(decls, fmt.Sprintf("(declare-fun %s () %s)\n", Q("str:"+t.Name), t.S))
		case "closure":
			closures = append(closures, t)
			decls = append(decls, fmt.Sprintf("(declare-fun %s () %s)\n", Q("fn:"+t.Name), t.S))
		case "app":
			if !ufs[t.Name] {
				ufs[t.Name] = true
				u := UFs[t.Name]
				var as []string
				for _, s := range u.Args {
					as = append(as, s.String())
				}
				decls = append(decls, fmt.Sprintf("(declare-fun %s (%s) %s)\n", Q(t.Name), strings.Join(as, " "), u.Ret))
			}
		}
	}
	sort.Strings(decls)
	prev := ""
	for _, d := range decls {
		if d != prev {
			b.WriteString(d)
		}
		prev = d
	}
	if len(closures) > 0 {
		// function literals / declared functions are not the nil function value
		hasNil := false
		for _, t := range order {
			if t.Op == "var" && t.Name == "fn!nil" {
				hasNil = true
			}
		}
		if hasNil {
			for _, c := range closures {
				fmt.Fprintf(&b, "(assert (not (= %s %s)))\n", Q("fn:"+c.Name), Q("fn!nil"))
			}
		}
	}
	if len(strlits) > 1 {
		b.WriteString("(assert (distinct")
		for _, s := range strlits {
			b.WriteString(" " + Q("str:"+s.Name))
		}
		b.WriteString("))\n")
	}
	// shared nodes
	names := map[int]string{}
	for _, t := range order {
		if len(t.Args) == 0 || t.HasBound || t.Op == "tuple" {
			continue
		}
		if refs[t.ID] > 1 {
			var tb strings.Builder
			writeTerm(&tb, t, namesWithout(names, t.ID))
			n := fmt.Sprintf("t!%d", t.ID)
			fmt.Fprintf(&b, "(define-fun %s () %s %s)\n", n, t.S, tb.String())
			names[t.ID] = n
		}
	}
	for _, a := range asserts {
		var tb strings.Builder
		writeTerm(&tb, a, names)
		fmt.Fprintf(&b, "(assert %s)\n", tb.String())
	}
	b.WriteString("(check-sat)\n")
	if produceModels && len(values) > 0 {
		b.WriteString("(get-value (")
		for _, v := range values {
			var tb strings.Builder
			writeTerm(&tb, v, names)
			b.WriteString(tb.String() + " ")
		}
		b.WriteString("))\n")
	}
	return b.String()
}

func namesWithout(m map[int]string, id int) map[int]string {
	// the node being defined is not yet in names, so m can be used directly
	return m
}
