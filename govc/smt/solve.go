package smt

import (
	"bytes"
	"context"
	"fmt"
	"os"
	"os/exec"
	"path/filepath"
	"strings"
	"time"
)

type Result struct {
	Status  string // "unsat", "sat", "unknown", "timeout", "error"
	Backend string
	Model   string
	Output  string
	Secs    float64
}

type solverSpec struct {
	name string
	argv func(file string, tmo time.Duration) []string
}

var solvers = []solverSpec{
	{"z3-5.1.0", func(f string, t time.Duration) []string {
		return []string{"z3-new", fmt.Sprintf("-T:%d", int(t.Seconds())+1), f}
	}},
	{"cvc5-1.0", func(f string, t time.Duration) []string {
		return []string{"cvc5", "--incremental", fmt.Sprintf("--tlimit=%d", t.Milliseconds()), f}
	}},
	{"z3-4.8.12", func(f string, t time.Duration) []string {
		return []string{"/usr/bin/z3", fmt.Sprintf("-T:%d", int(t.Seconds())+1), f}
	}},
}

func runOne(ctx context.Context, sp solverSpec, file string, tmo time.Duration) Result {
	argv := sp.argv(file, tmo)
	cctx, cancel := context.WithTimeout(ctx, tmo+2*time.Second)
	defer cancel()
	cmd := exec.CommandContext(cctx, argv[0], argv[1:]...)
	var out bytes.Buffer
	cmd.Stdout = &out
	cmd.Stderr = &out
	t0 := time.Now()
	_ = cmd.Run()
	secs := time.Since(t0).Seconds()
	s := out.String()
	first := strings.TrimSpace(strings.SplitN(s, "\n", 2)[0])
	r := Result{Backend: sp.name, Output: s, Secs: secs}
	switch first {
	case "unsat", "sat", "unknown":
		r.Status = first
		if first == "sat" {
			if i := strings.Index(s, "\n"); i >= 0 {
				r.Model = strings.TrimSpace(s[i+1:])
			}
		}
	case "timeout":
		r.Status = "timeout"
	default:
		if cctx.Err() != nil {
			r.Status = "timeout"
		} else if strings.Contains(s, "timeout") || strings.Contains(s, "interrupted") {
			r.Status = "timeout"
		} else {
			r.Status = "error"
		}
	}
	return r
}

// Solve runs the portfolio: z3-new first with a short slice; if undecided, the others in parallel
// with the full timeout. First definite answer wins.
// SolveRace runs z3-new and cvc5 side by side from the start (used for the instantiated,
// quantifier-free scripts, where cvc5 is often the faster one).
func SolveRace(dir, name, script string, tmo time.Duration) Result {
	file := filepath.Join(dir, name+".smt2")
	if err := os.WriteFile(file, []byte(script), 0o644); err != nil {
		return Result{Status: "error", Output: err.Error()}
	}
	t0 := time.Now()
	ctx, cancel := context.WithCancel(context.Background())
	defer cancel()
	ch := make(chan Result, 2)
	for _, sp := range solvers[:2] {
		sp := sp
		go func() { ch <- runOne(ctx, sp, file, tmo) }()
	}
	var last Result
	for i := 0; i < 2; i++ {
		x := <-ch
		if x.Status == "unsat" || x.Status == "sat" {
			x.Secs = time.Since(t0).Seconds()
			return x
		}
		last = x
	}
	last.Secs = time.Since(t0).Seconds()
	if last.Status == "error" {
		last.Status = "unknown"
	}
	last.Backend = "z3-5.1.0|cvc5-1.0"
	return last
}

// SolveOne runs only the first solver (z3-new), synchronously.
func SolveOne(dir, name, script string, tmo time.Duration) Result {
	file := filepath.Join(dir, name+".smt2")
	if err := os.WriteFile(file, []byte(script), 0o644); err != nil {
		return Result{Status: "error", Output: err.Error()}
	}
	defer os.Remove(file)
	return runOne(context.Background(), solvers[0], file, tmo)
}

func Solve(dir, name, script string, tmo time.Duration) Result {
	file := filepath.Join(dir, name+".smt2")
	if err := os.WriteFile(file, []byte(script), 0o644); err != nil {
		return Result{Status: "error", Output: err.Error()}
	}
	t0 := time.Now()
	first := tmo / 4
	if first < 2*time.Second {
		first = 2 * time.Second
	}
	if first > tmo {
		first = tmo
	}
	r := runOne(context.Background(), solvers[0], file, first)
	if r.Status == "unsat" || r.Status == "sat" {
		return r
	}
	ctx, cancel := context.WithCancel(context.Background())
	defer cancel()
	ch := make(chan Result, len(solvers))
	for _, sp := range solvers {
		sp := sp
		go func() { ch <- runOne(ctx, sp, file, tmo) }()
	}
	var last Result = r
	outs := []string{r.Backend + ": " + r.Status}
	for range solvers {
		x := <-ch
		outs = append(outs, x.Backend+": "+x.Status)
		if x.Status == "unsat" || x.Status == "sat" {
			x.Secs = time.Since(t0).Seconds()
			return x
		}
		if x.Status == "error" {
			last = x
		} else if last.Status != "error" {
			last = x
		}
	}
	last.Secs = time.Since(t0).Seconds()
	if last.Status == "error" {
		// an error from one backend (e.g. unsupported construct) with the others undecided
		last.Output = strings.Join(outs, "; ") + "\n" + last.Output
		allErr := true
		for _, o := range outs {
			if !strings.HasSuffix(o, "error") {
				allErr = false
			}
		}
		if !allErr {
			last.Status = "unknown"
		}
	}
	last.Backend = "portfolio"
	return last
}
