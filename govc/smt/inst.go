package smt

import "fmt"

// Quantifier handling done by the generator rather than left to the solver:
//  - goal-side universals (negative polarity in the asserted formulas) are skolemised;
//  - for every remaining universal F and every ground array-index term g that can match an
//    index pattern of F's body, the valid instance  F => body[x := g - c]  is added.
// Both steps preserve satisfiability-equivalence in the direction that matters: every added
// assertion is a logical consequence, and skolemisation is the standard equisatisfiable step.

var skCtr int

// skolemize rewrites t (asserted with the given polarity: true = asserted as is).
func skolemize(t *Term, pos bool) *Term {
	switch t.Op {
	case "not":
		return Not(skolemize(t.Args[0], !pos))
	case "and":
		as := make([]*Term, len(t.Args))
		for i, a := range t.Args {
			as[i] = skolemize(a, pos)
		}
		return And(as...)
	case "or":
		as := make([]*Term, len(t.Args))
		for i, a := range t.Args {
			as[i] = skolemize(a, pos)
		}
		return Or(as...)
	case "forall":
		if !pos && !t.HasBound {
			m := map[*Term]*Term{}
			for _, v := range t.Args[:t.NB] {
				skCtr++
				m[v] = Var(fmt.Sprintf("sk!%d!%s", skCtr, v.Name), v.S)
			}
			return skolemize(Subst(t.Args[t.NB], m), pos)
		}
	}
	return t
}

type qinfo struct {
	f        *Term
	patterns []qpat
}
type qpat struct {
	v   *Term // bound var
	off *Term // pattern is v + off (off may be nil)
}

func collect(t *Term, seen map[int]bool, foralls *[]*Term, grounds map[*Sort][]*Term, gseen map[int]bool) {
	if seen[t.ID] {
		return
	}
	seen[t.ID] = true
	if t.Op == "forall" && !t.HasBound {
		*foralls = append(*foralls, t)
	}
	if (t.Op == "select" || t.Op == "store") && !t.Args[1].HasBound && t.Args[1].S.Kind == KBV {
		g := t.Args[1]
		if !gseen[g.ID] {
			gseen[g.ID] = true
			grounds[g.S] = append(grounds[g.S], g)
		}
	}
	for _, a := range t.Args {
		collect(a, seen, foralls, grounds, gseen)
	}
}

func containsVar(t, v *Term) bool {
	if !t.HasBound {
		return false
	}
	if t == v {
		return true
	}
	for _, a := range t.Args {
		if containsVar(a, v) {
			return true
		}
	}
	return false
}

func patternsOf(body *Term, vars []*Term) []qpat {
	var out []qpat
	seen := map[int]bool{}
	dedup := map[string]bool{}
	var walk func(t *Term)
	walk = func(t *Term) {
		if !t.HasBound || seen[t.ID] {
			return
		}
		seen[t.ID] = true
		if t.Op == "select" || t.Op == "store" {
			ix := t.Args[1]
			for _, v := range vars {
				if ix == v {
					k := fmt.Sprintf("%d:", v.ID)
					if !dedup[k] {
						dedup[k] = true
						out = append(out, qpat{v, nil})
					}
				} else if ix.Op == "bvadd" && len(ix.Args) == 2 {
					for s := 0; s < 2; s++ {
						if ix.Args[s] == v && !containsVar(ix.Args[1-s], v) && !ix.Args[1-s].HasBound {
							k := fmt.Sprintf("%d:%d", v.ID, ix.Args[1-s].ID)
							if !dedup[k] {
								dedup[k] = true
								out = append(out, qpat{v, ix.Args[1-s]})
							}
						}
					}
				}
			}
		}
		if t.Op == "forall" {
			return // inner quantifiers are handled after the outer one is instantiated
		}
		for _, a := range t.Args {
			walk(a)
		}
	}
	walk(body)
	return out
}

// Instantiate returns asserts plus ground instances of their universals (two rounds).
func Instantiate(asserts []*Term, maxInst int) []*Term {
	out := make([]*Term, len(asserts))
	for i, a := range asserts {
		out[i] = skolemize(a, true)
	}
	done := map[string]bool{}
	total := 0
	for round := 0; round < 2; round++ {
		var foralls []*Term
		grounds := map[*Sort][]*Term{}
		seen := map[int]bool{}
		gseen := map[int]bool{}
		for _, a := range out {
			collect(a, seen, &foralls, grounds, gseen)
		}
		added := false
		for _, f := range foralls {
			vars := f.Args[:f.NB]
			body := f.Args[f.NB]
			if len(vars) != 1 {
				continue
			}
			v := vars[0]
			pats := patternsOf(body, vars)
			n := 0
			for _, g := range grounds[v.S] {
				// stable order: iterate grounds, then derived candidates
				for _, p := range pats {
					t := g
					if p.off != nil {
						t = BVSub(g, p.off)
					}
					k := fmt.Sprintf("%d/%d", f.ID, t.ID)
					if done[k] || total >= maxInst || n >= 48 {
						continue
					}
					done[k] = true
					inst := Subst(body, map[*Term]*Term{v: t})
					out = append(out, Implies(f, inst))
					total++
					n++
					added = true
				}
			}
		}
		if !added {
			break
		}
	}
	return out
}

// AbstractQuantifiers replaces every closed universal by a fresh propositional constant.
// Together with the instances added by Instantiate this is a weakening of the hypotheses,
// so "unsat" of the result implies "unsat" of the original. Returns whether anything changed.
func AbstractQuantifiers(asserts []*Term) ([]*Term, bool) {
	m := map[*Term]*Term{}
	seen := map[int]bool{}
	var walk func(t *Term)
	walk = func(t *Term) {
		if seen[t.ID] {
			return
		}
		seen[t.ID] = true
		if t.Op == "forall" && !t.HasBound {
			m[t] = Var(fmt.Sprintf("qabs!%d", t.ID), Bool)
			return
		}
		for _, a := range t.Args {
			walk(a)
		}
	}
	for _, a := range asserts {
		walk(a)
	}
	if len(m) == 0 {
		return asserts, false
	}
	out := make([]*Term, len(asserts))
	for i, a := range asserts {
		out[i] = Subst(a, m)
	}
	return out, true
}
