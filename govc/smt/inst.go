package smt

import (
	"fmt"
	"strings"
)

// Quantifier handling done by the generator rather than left to the solver:
//  - goal-side universals (negative polarity in the asserted formulas) are skolemised;
//  - for every remaining universal F and every ground array-index term g that can match an
//    index pattern of F's body, the valid instance  F => body[x := g - c]  is added.
// Both steps preserve satisfiability-equivalence in the direction that matters: every added
// assertion is a logical consequence, and skolemisation is the standard equisatisfiable step.

var skCtr int

// DebugInst prints instantiation statistics.
var DebugInst bool

var skMemo = map[[2]int]*Term{}

// skolemize rewrites t (asserted with the given polarity: true = asserted as is).
func skolemize(t *Term, pos bool) *Term {
	if !HasQuant(t) {
		return t
	}
	k := [2]int{t.ID, 0}
	if pos {
		k[1] = 1
	}
	if r, ok := skMemo[k]; ok {
		return r
	}
	r := skolemize1(t, pos)
	skMemo[k] = r
	return r
}

func skolemize1(t *Term, pos bool) *Term {
	switch t.Op {
	case "not":
		return Not(skolemize(t.Args[0], !pos))
	case "and":
		as := make([]*Term, len(t.Args))
		for i, a := range t.Args {
			as[i] = skolemize(a, pos)
		}
		return And(as...)
	case "or":
		as := make([]*Term, len(t.Args))
		for i, a := range t.Args {
			as[i] = skolemize(a, pos)
		}
		return Or(as...)
	case "forall":
		if !pos && !t.HasBound {
			m := map[*Term]*Term{}
			for _, v := range t.Args[:t.NB] {
				skCtr++
				m[v] = Var(fmt.Sprintf("sk!%d!%s", skCtr, v.Name), v.S)
			}
			return skolemize(Subst(t.Args[t.NB], m), pos)
		}
	}
	return t
}

type qpat struct {
	arr *Term // array operand of the select/store (may contain bound vars)
	v   *Term // bound var
	off *Term // pattern index is v + off (off may be nil)
	idx *Term // general case: the whole index pattern, matched syntactically
}

// match: first-order matching of pattern p (containing bound var v) against ground g.
func match(p, g, v *Term, bind **Term) bool {
	if p == v {
		if *bind == nil {
			*bind = g
			return true
		}
		return *bind == g
	}
	if !p.HasBound {
		// ground parts of the pattern are wildcards: values merged over paths (ite) rarely match
		// syntactically, and any instance is a valid consequence anyway
		return p.S == g.S
	}
	if p.Op != g.Op || p.Name != g.Name || p.Val != g.Val || len(p.Args) != len(g.Args) || p.S != g.S {
		return false
	}
	for i := range p.Args {
		if !match(p.Args[i], g.Args[i], v, bind) {
			return false
		}
	}
	return true
}

type gsel struct {
	bases map[int]bool // ids of the base arrays reachable through ite arms / store bases
	idx   *Term
}

func basesOf(a *Term, out map[int]bool) {
	if out[a.ID] {
		return
	}
	out[a.ID] = true
	switch a.Op {
	case "ite":
		basesOf(a.Args[1], out)
		basesOf(a.Args[2], out)
	case "store":
		basesOf(a.Args[0], out)
	case "select":
		// an array read out of a heap of arrays: identify it by the heap's leaves (one level
		// down, negative keys) and by every array value stored into that heap
		if a.S.Kind == KArray {
			heapParts(a.Args[0], out, map[int]bool{})
		}
	}
}

func heapParts(h *Term, out map[int]bool, seen map[int]bool) {
	if seen[h.ID] {
		return
	}
	seen[h.ID] = true
	switch h.Op {
	case "ite":
		heapParts(h.Args[1], out, seen)
		heapParts(h.Args[2], out, seen)
	case "store":
		heapParts(h.Args[0], out, seen)
		basesOf(h.Args[2], out)
	default:
		out[-h.ID] = true
	}
}

func collect(t *Term, seen map[int]bool, foralls *[]*Term, grounds *[]gsel, gseen map[string]bool) {
	if seen[t.ID] {
		return
	}
	seen[t.ID] = true
	if t.Op == "forall" && !t.HasBound {
		*foralls = append(*foralls, t)
	}
	if (t.Op == "select" || t.Op == "store") && !t.Args[1].HasBound && !t.Args[0].HasBound {
		k := fmt.Sprintf("%d/%d", t.Args[0].ID, t.Args[1].ID)
		if !gseen[k] {
			gseen[k] = true
			g := gsel{bases: map[int]bool{}, idx: t.Args[1]}
			basesOf(t.Args[0], g.bases)
			*grounds = append(*grounds, g)
		}
	}
	for _, a := range t.Args {
		collect(a, seen, foralls, grounds, gseen)
	}
}

func containsVar(t, v *Term) bool {
	if !t.HasBound {
		return false
	}
	if t == v {
		return true
	}
	for _, a := range t.Args {
		if containsVar(a, v) {
			return true
		}
	}
	return false
}

func patternsOf(body *Term, vars []*Term) []qpat {
	var out []qpat
	seen := map[int]bool{}
	dedup := map[string]bool{}
	var walk func(t *Term)
	walk = func(t *Term) {
		if !t.HasBound || seen[t.ID] {
			return
		}
		seen[t.ID] = true
		if t.Op == "select" || t.Op == "store" {
			ix := t.Args[1]
			for _, v := range vars {
				if ix == v {
					k := fmt.Sprintf("%d:%d:", t.Args[0].ID, v.ID)
					if !dedup[k] {
						dedup[k] = true
						out = append(out, qpat{t.Args[0], v, nil, nil})
					}
				} else if ix.Op == "bvadd" && len(ix.Args) == 2 && (ix.Args[0] == v && !ix.Args[1].HasBound || ix.Args[1] == v && !ix.Args[0].HasBound) {
					for s := 0; s < 2; s++ {
						if ix.Args[s] == v && !ix.Args[1-s].HasBound {
							k := fmt.Sprintf("%d:%d:%d", t.Args[0].ID, v.ID, ix.Args[1-s].ID)
							if !dedup[k] {
								dedup[k] = true
								out = append(out, qpat{t.Args[0], v, ix.Args[1-s], nil})
							}
						}
					}
				} else if containsVar(ix, v) {
					k := fmt.Sprintf("%d:%d:m%d", t.Args[0].ID, v.ID, ix.ID)
					if !dedup[k] {
						dedup[k] = true
						out = append(out, qpat{t.Args[0], v, nil, ix})
					}
				}
			}
		}
		if t.Op == "forall" {
			return // inner quantifiers are handled after the outer one is instantiated
		}
		for _, a := range t.Args {
			walk(a)
		}
	}
	walk(body)
	return out
}

// Instantiate returns asserts plus ground instances of their universals (up to three rounds).
func Instantiate(asserts []*Term, maxInst int) []*Term {
	out := make([]*Term, len(asserts))
	for i, a := range asserts {
		out[i] = skolemize(a, true)
	}
	done := map[string]bool{}
	total := 0
	for round := 0; round < 2; round++ {
		var foralls []*Term
		var grounds []gsel
		seen := map[int]bool{}
		gseen := map[string]bool{}
		for _, a := range out {
			collect(a, seen, &foralls, &grounds, gseen)
		}
		added := false
		if DebugInst {
			for _, g := range grounds {
				if strings.Contains(g.idx.Short(200), "sk!") {
					fmt.Printf("   ground(sk) idx=%s\n", g.idx.Short(160))
				}
			}
		}
		for _, f := range foralls {
			vars := f.Args[:f.NB]
			body := f.Args[f.NB]
			if len(vars) != 1 {
				continue
			}
			v := vars[0]
			pats := patternsOf(body, vars)
			n := 0
			if DebugInst {
				fmt.Printf("inst round %d forall %d (%s): %d patterns, %d grounds\n", round, f.ID, v.Name, len(pats), len(grounds))
			}
			for _, p := range pats {
				if DebugInst {
					ix := "v"
					if p.idx != nil {
						ix = p.idx.Short(100)
					} else if p.off != nil {
						ix = "v+" + p.off.Short(80)
					}
					fmt.Printf("   pattern arr=%s idx=%s\n", p.arr.Short(100), ix)
				}
				var pbases map[int]bool
				if !p.arr.HasBound {
					pbases = map[int]bool{}
					basesOf(p.arr, pbases)
				}
				for _, g := range grounds {
					if p.idx == nil && g.idx.S != v.S {
						continue
					}
					if pbases != nil {
						match := false
						for id := range pbases {
							if g.bases[id] {
								match = true
								break
							}
						}
						if !match {
							continue
						}
					}
					t := g.idx
					if p.idx != nil {
						var b *Term
						if !match(p.idx, g.idx, v, &b) || b == nil {
							continue
						}
						t = b
					} else if p.off != nil {
						t = BVSub(g.idx, p.off)
					}
					k := fmt.Sprintf("%d/%d", f.ID, t.ID)
					if done[k] || total >= maxInst || n >= 32 {
						continue
					}
					done[k] = true
					inst := Subst(body, map[*Term]*Term{v: t})
					if DebugInst {
						fmt.Printf("   %s := %s\n", v.Name, t.Short(120))
					}
					out = append(out, Implies(f, inst))
					total++
					n++
					added = true
				}
			}
		}
		if !added {
			break
		}
	}
	return out
}

// AbstractQuantifiers replaces every closed universal by a fresh propositional constant.
// Together with the instances added by Instantiate this is a weakening of the hypotheses,
// so "unsat" of the result implies "unsat" of the original. Returns whether anything changed.
func AbstractQuantifiers(asserts []*Term) ([]*Term, bool) {
	m := map[*Term]*Term{}
	seen := map[int]bool{}
	var walk func(t *Term)
	walk = func(t *Term) {
		if seen[t.ID] {
			return
		}
		seen[t.ID] = true
		if t.Op == "forall" && !t.HasBound {
			m[t] = Var(fmt.Sprintf("qabs!%d", t.ID), Bool)
			return
		}
		for _, a := range t.Args {
			walk(a)
		}
	}
	for _, a := range asserts {
		walk(a)
	}
	if len(m) == 0 {
		return asserts, false
	}
	out := make([]*Term, len(asserts))
	for i, a := range asserts {
		out[i] = Subst(a, m)
	}
	return out, true
}

// Skolemize applies goal-side skolemisation only.
func Skolemize(asserts []*Term) []*Term {
	out := make([]*Term, len(asserts))
	for i, a := range asserts {
		out[i] = skolemize(a, true)
	}
	return out
}

func trunc(s string, n int) string {
	if len(s) > n {
		return s[:n] + "..."
	}
	return s
}
