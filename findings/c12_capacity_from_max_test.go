package probe10

import (
	"context"
	"testing"

	"github.com/tetratelabs/wazero"
)

// (module (memory 1 100) (func (export "grow") (param i32) (result i32) (memory.grow (local.get 0))))
var bin = []byte{0, 0x61, 0x73, 0x6d, 1, 0, 0, 0,
	1, 6, 1, 0x60, 1, 0x7f, 1, 0x7f,
	3, 2, 1, 0,
	5, 4, 1, 1, 1, 100, // memory min 1 max 100
	7, 8, 1, 4, 'g', 'r', 'o', 'w', 0, 0,
	10, 8, 1, 6, 0, 0x20, 0, 0x40, 0, 0x0b}

func try(t *testing.T, fromMax bool) (compileErr error, grow9 uint64) {
	ctx := context.Background()
	r := wazero.NewRuntimeWithConfig(ctx, wazero.NewRuntimeConfigInterpreter().WithMemoryLimitPages(10).WithMemoryCapacityFromMax(fromMax))
	defer r.Close(ctx)
	mod, err := r.Instantiate(ctx, bin)
	if err != nil {
		return err, 0
	}
	res, err := mod.ExportedFunction("grow").Call(ctx, 9)
	if err != nil {
		t.Fatal(err)
	}
	return nil, res[0]
}

func TestCapacityFromMaxIsNotSemantic(t *testing.T) {
	e0, g0 := try(t, false)
	e1, g1 := try(t, true)
	t.Logf("limit 10 pages, module declares (memory 1 100): capacity-from-max=false -> err=%v grow(9)=%d; capacity-from-max=true -> err=%v grow(9)=%d", e0, g0, e1, g1)
	if (e0 == nil) != (e1 == nil) || g0 != g1 {
		t.Errorf("WithMemoryCapacityFromMax, documented as an allocation strategy, changes guest-visible behaviour")
	}
}
