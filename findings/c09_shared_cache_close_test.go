package probe12

import (
	"context"
	"testing"

	"github.com/tetratelabs/wazero"
)

// (module (func (export "f") (result i32) (i32.const 7)))
var bin = []byte{0, 0x61, 0x73, 0x6d, 1, 0, 0, 0,
	1, 5, 1, 0x60, 0, 1, 0x7f,
	3, 2, 1, 0,
	7, 5, 1, 1, 'f', 0, 0,
	10, 6, 1, 4, 0, 0x41, 7, 0x0b}

func run(t *testing.T, name string, mk func() wazero.RuntimeConfig) {
	ctx := context.Background()
	cache := wazero.NewCompilationCache()
	defer cache.Close(ctx)
	ra := wazero.NewRuntimeWithConfig(ctx, mk().WithCompilationCache(cache))
	rb := wazero.NewRuntimeWithConfig(ctx, mk().WithCompilationCache(cache))
	defer ra.Close(ctx)
	defer rb.Close(ctx)
	ca, err := ra.CompileModule(ctx, bin)
	if err != nil {
		t.Fatal(err)
	}
	cb, err := rb.CompileModule(ctx, bin)
	if err != nil {
		t.Fatal(err)
	}
	// runtime A is done with its compiled module; runtime B's is still live
	if err := ca.Close(ctx); err != nil {
		t.Fatal(err)
	}
	_, err = rb.InstantiateModule(ctx, cb, wazero.NewModuleConfig())
	t.Logf("%s: runtime B instantiates its own compiled module after runtime A closed its one: err=%v", name, err)
	if err != nil {
		t.Errorf("%s: closing a compiled module in one runtime broke the live compiled module of another runtime sharing the cache", name)
	}
}

func TestSharedCacheClose(t *testing.T) {
	run(t, "interpreter", wazero.NewRuntimeConfigInterpreter)
	run(t, "compiler", wazero.NewRuntimeConfigCompiler)
}
