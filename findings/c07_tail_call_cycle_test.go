package probe9

import (
	"context"
	"testing"
	"time"

	"github.com/tetratelabs/wazero"
	"github.com/tetratelabs/wazero/api"
	"github.com/tetratelabs/wazero/experimental"
)

// (module (func $f (export "spin") (return_call $f)))
var bin = []byte{0, 0x61, 0x73, 0x6d, 1, 0, 0, 0,
	1, 4, 1, 0x60, 0, 0,
	3, 2, 1, 0,
	7, 8, 1, 4, 's', 'p', 'i', 'n', 0, 0,
	10, 6, 1, 4, 0, 0x12, 0, 0x0b} // return_call 0; end

func spin(t *testing.T, name string, cfg wazero.RuntimeConfig) {
	ctx := context.Background()
	r := wazero.NewRuntimeWithConfig(ctx, cfg.WithCloseOnContextDone(true).WithCoreFeatures(api.CoreFeaturesV2|experimental.CoreFeaturesTailCall))
	mod, err := r.Instantiate(ctx, bin)
	if err != nil {
		t.Fatal(err)
	}
	cctx, cancel := context.WithTimeout(ctx, 200*time.Millisecond)
	defer cancel()
	done := make(chan error, 1)
	go func() { _, err := mod.ExportedFunction("spin").Call(cctx); done <- err }()
	select {
	case err := <-done:
		t.Logf("%s: stopped: %v", name, err)
	case <-time.After(5 * time.Second):
		t.Errorf("%s: a tail-call cycle is still running 5s after its 200ms deadline (close-on-context-done did not stop it)", name)
	}
}

func TestTailCallCycleInterp(t *testing.T) { spin(t, "interpreter", wazero.NewRuntimeConfigInterpreter()) }

func TestTailCallCycleCompiler(t *testing.T) { spin(t, "compiler", wazero.NewRuntimeConfigCompiler()) }
