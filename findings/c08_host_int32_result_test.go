package probe5

import (
	"context"
	"testing"

	"github.com/tetratelabs/wazero"
)

// (module (import "env" "h" (func $h (result i32)))
//   (func (export "f") (result i32) (i32.le_u (call $h) (i32.const -1))))
var bin = []byte{0, 0x61, 0x73, 0x6d, 1, 0, 0, 0,
	1, 5, 1, 0x60, 0, 1, 0x7f, // type ()->i32
	2, 9, 1, 3, 'e', 'n', 'v', 1, 'h', 0, 0, // import env.h func type 0
	3, 2, 1, 0, // func
	7, 5, 1, 1, 'f', 0, 1, // export f = func 1
	10, 9, 1, 7, 0, 0x10, 0, 0x41, 0x7f, 0x4d, 0x0b} // call 0; i32.const -1; i32.le_u; end

func run(t *testing.T, name string, cfg wazero.RuntimeConfig) uint64 {
	ctx := context.Background()
	r := wazero.NewRuntimeWithConfig(ctx, cfg)
	defer r.Close(ctx)
	if _, err := r.NewHostModuleBuilder("env").NewFunctionBuilder().
		WithFunc(func() int32 { return -1 }).Export("h").Instantiate(ctx); err != nil {
		t.Fatal(err)
	}
	mod, err := r.Instantiate(ctx, bin)
	if err != nil {
		t.Fatal(err)
	}
	res, err := mod.ExportedFunction("f").Call(ctx)
	if err != nil {
		t.Fatal(err)
	}
	t.Logf("%s: (i32.le_u (call $h) (i32.const -1)) with h() = int32(-1) -> %d (want 1)", name, res[0])
	return res[0]
}

func TestHostInt32Result(t *testing.T) {
	if got := run(t, "compiler", wazero.NewRuntimeConfigCompiler()); got != 1 {
		t.Errorf("compiler: got %d, want 1", got)
	}
	if got := run(t, "interpreter", wazero.NewRuntimeConfigInterpreter()); got != 1 {
		t.Errorf("interpreter: got %d, want 1", got)
	}
}
