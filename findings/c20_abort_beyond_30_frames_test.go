package probe3

import (
	"context"
	"testing"

	"github.com/tetratelabs/wazero"
	"github.com/tetratelabs/wazero/api"
	"github.com/tetratelabs/wazero/experimental"
)

type counter struct{ before, after, abort int }

func (c *counter) NewFunctionListener(api.FunctionDefinition) experimental.FunctionListener { return c }
func (c *counter) Before(context.Context, api.Module, api.FunctionDefinition, []uint64, experimental.StackIterator) {
	c.before++
}
func (c *counter) After(context.Context, api.Module, api.FunctionDefinition, []uint64) { c.after++ }
func (c *counter) Abort(context.Context, api.Module, api.FunctionDefinition, error)    { c.abort++ }

// (module (func $f (export "f") (param i32) (if (i32.eqz (local.get 0)) (then unreachable)) (call $f (i32.sub (local.get 0) (i32.const 1)))))
var bin = []byte{0, 0x61, 0x73, 0x6d, 1, 0, 0, 0,
	1, 5, 1, 0x60, 1, 0x7f, 0, // type (i32)->()
	3, 2, 1, 0, // func
	7, 5, 1, 1, 'f', 0, 0, // export
	10, 18, 1, 16, 0, // code: 1 body, size 15, 0 locals
	0x20, 0, 0x45, 0x04, 0x40, 0x00, 0x0b, // local.get 0; i32.eqz; if; unreachable; end
	0x20, 0, 0x41, 1, 0x6b, 0x10, 0, // local.get 0; i32.const 1; i32.sub; call 0
	0x0b}

func run(t *testing.T, cfg wazero.RuntimeConfig, depth uint64) {
	c := &counter{}
	ctx := experimental.WithFunctionListenerFactory(context.Background(), c)
	r := wazero.NewRuntimeWithConfig(ctx, cfg)
	defer r.Close(ctx)
	mod, err := r.Instantiate(ctx, bin)
	if err != nil {
		t.Fatal(err)
	}
	_, err = mod.ExportedFunction("f").Call(ctx, depth)
	t.Logf("depth %d: err kind=%T before=%d after=%d abort=%d", depth, err, c.before, c.after, c.abort)
	if c.before != c.after+c.abort {
		t.Errorf("depth %d: %d before-events but %d after + %d abort events", depth, c.before, c.after, c.abort)
	}
}

func TestInterp(t *testing.T)   { run(t, wazero.NewRuntimeConfigInterpreter(), 10); run(t, wazero.NewRuntimeConfigInterpreter(), 50) }
func TestCompiler(t *testing.T) { run(t, wazero.NewRuntimeConfigCompiler(), 10); run(t, wazero.NewRuntimeConfigCompiler(), 50) }
