package probe2

import (
	"context"
	"runtime"
	"testing"

	"github.com/tetratelabs/wazero"
)

func TestHugeVector(t *testing.T) {
	for _, cnt := range [][]byte{{0xff, 0xff, 0xff, 0x7f}, {0xff, 0xff, 0xff, 0xff, 0x0f}} {
		// magic, version, type section (id 1), size, vector count = huge, no entries
		bin := append([]byte{0, 0x61, 0x73, 0x6d, 1, 0, 0, 0, 1, byte(len(cnt))}, cnt...)
		ctx := context.Background()
		r := wazero.NewRuntimeWithConfig(ctx, wazero.NewRuntimeConfigInterpreter())
		var before, after runtime.MemStats
		runtime.ReadMemStats(&before)
		_, err := r.CompileModule(ctx, bin)
		runtime.ReadMemStats(&after)
		t.Logf("input %d bytes: err=%v, host allocated %d MiB (sys %d MiB)", len(bin), err, (after.TotalAlloc-before.TotalAlloc)>>20, (after.Sys-before.Sys)>>20)
		r.Close(ctx)
	}
}

func TestHugeCustomSection(t *testing.T) {
	// magic, version, custom section (id 0), declared size 0xffffffff, name "a", no payload
	bin := []byte{0, 0x61, 0x73, 0x6d, 1, 0, 0, 0, 0, 0xff, 0xff, 0xff, 0xff, 0x0f, 1, 'a'}
	ctx := context.Background()
	r := wazero.NewRuntimeWithConfig(ctx, wazero.NewRuntimeConfigInterpreter())
	var before, after runtime.MemStats
	runtime.ReadMemStats(&before)
	_, err := r.CompileModule(ctx, bin)
	runtime.ReadMemStats(&after)
	t.Logf("input %d bytes: err=%v, host allocated %d MiB", len(bin), err, (after.TotalAlloc-before.TotalAlloc)>>20)
	if (after.TotalAlloc-before.TotalAlloc)>>20 > 16 {
		t.Fatalf("a %d-byte module made the host allocate %d MiB", len(bin), (after.TotalAlloc-before.TotalAlloc)>>20)
	}
	r.Close(ctx)
}
