package probe7

import (
	"context"
	"testing"

	"github.com/tetratelabs/wazero"
)

// (module (table 1 funcref)
//   (func $f (result i32) (i32.const 7))
//   (func (export "call") (result i32) (call_indirect (result i32) (i32.const 0)))
//   (elem (i32.const 0) func $f)                      ;; slot 0 := $f
//   (elem (i32.const 0) funcref (ref.null func)))     ;; slot 0 := null  (active segments are applied in order)
var bin = []byte{0, 0x61, 0x73, 0x6d, 1, 0, 0, 0,
	1, 5, 1, 0x60, 0, 1, 0x7f, // type ()->i32
	3, 3, 2, 0, 0, // two funcs
	4, 4, 1, 0x70, 0, 1, // table funcref min 1
	7, 8, 1, 4, 'c', 'a', 'l', 'l', 0, 1, // export call = func 1
	9, 15, 2, // element section, 2 segments
	0, 0x41, 0, 0x0b, 1, 0, // flag 0: offset i32.const 0, [func 0]
	4, 0x41, 0, 0x0b, 1, 0xd0, 0x70, 0x0b, // flag 4: offset i32.const 0, [ref.null func]
	10, 14, 2, // code
	4, 0, 0x41, 7, 0x0b, // $f
	7, 0, 0x41, 0, 0x11, 0, 0, 0x0b} // call: i32.const 0; call_indirect type 0 table 0

func TestActiveSegmentWithNull(t *testing.T) {
	ctx := context.Background()
	for name, cfg := range map[string]wazero.RuntimeConfig{"interpreter": wazero.NewRuntimeConfigInterpreter(), "compiler": wazero.NewRuntimeConfigCompiler()} {
		r := wazero.NewRuntimeWithConfig(ctx, cfg)
		mod, err := r.Instantiate(ctx, bin)
		if err != nil {
			t.Fatal(err)
		}
		res, err := mod.ExportedFunction("call").Call(ctx)
		t.Logf("%s: call_indirect through slot 0 -> %v, err=%v", name, res, err)
		if err == nil {
			t.Errorf("%s: slot 0 still holds $f: the later active segment's ref.null entry was not written", name)
		}
		r.Close(ctx)
	}
}
