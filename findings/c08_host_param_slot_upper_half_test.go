package wazero_test

// Demo for /verif known finding C08: on the compiler engine (amd64) a stack-based host function
// (api.GoModuleFunc) receives an i32 parameter in a uint64 slot whose upper half is NOT cleared: the
// trampoline stores 4 bytes into the 8-byte slot, so the upper half is whatever an earlier host call
// left there. The interpreter passes uint64(uint32(v)), as api.EncodeU32 documents.
// Run: cp to the repository root, go test -run TestC08_HostParamSlotUpperHalf .

import (
	"context"
	"testing"

	"github.com/tetratelabs/wazero"
	"github.com/tetratelabs/wazero/api"
)

func TestC08_HostParamSlotUpperHalf(t *testing.T) {
	for _, tc := range []struct {
		name string
		cfg  wazero.RuntimeConfig
	}{{"compiler", wazero.NewRuntimeConfigCompiler()}, {"interpreter", wazero.NewRuntimeConfigInterpreter()}} {
		t.Run(tc.name, func(t *testing.T) {
			ctx := context.Background()
			r := wazero.NewRuntimeWithConfig(ctx, tc.cfg)
			defer r.Close(ctx)
			var got []uint64
			i32, i64 := api.ValueTypeI32, api.ValueTypeI64
			_, err := r.NewHostModuleBuilder("env").
				NewFunctionBuilder().
				WithGoModuleFunction(api.GoModuleFunc(func(ctx context.Context, mod api.Module, stack []uint64) {
					got = append([]uint64{}, stack[:10]...)
				}), []api.ValueType{i32, i32, i32, i32, i32, i32, i32, i32, i32, i32}, nil).
				Export("h").
				NewFunctionBuilder().
				WithGoModuleFunction(api.GoModuleFunc(func(ctx context.Context, mod api.Module, stack []uint64) {}),
					[]api.ValueType{i64, i64, i64, i64, i64, i64, i64, i64, i64, i64}, nil).
				Export("h64").
				Instantiate(ctx)
			if err != nil {
				t.Fatal(err)
			}
			body := []byte{0}
			for i := 0; i < 10; i++ {
				body = append(body, 0x20, 0) // local.get 0 (i64)
			}
			body = append(body, 0x10, 1) // call h64
			for i := 0; i < 10; i++ {
				body = append(body, 0x20, 0, 0xa7)
			}
			body = append(body, 0x10, 0, 0x0b)
			bin := []byte{0, 'a', 's', 'm', 1, 0, 0, 0,
				1, 0x1f, 3,
				0x60, 10, 0x7f, 0x7f, 0x7f, 0x7f, 0x7f, 0x7f, 0x7f, 0x7f, 0x7f, 0x7f, 0,
				0x60, 10, 0x7e, 0x7e, 0x7e, 0x7e, 0x7e, 0x7e, 0x7e, 0x7e, 0x7e, 0x7e, 0,
				0x60, 1, 0x7e, 0,
				2, 19, 2, 3, 'e', 'n', 'v', 1, 'h', 0, 0, 3, 'e', 'n', 'v', 3, 'h', '6', '4', 0, 1,
				3, 2, 1, 2,
				7, 7, 1, 3, 'r', 'u', 'n', 0, 2,
				10, byte(len(body) + 2), 1, byte(len(body))}
			bin = append(bin, body...)
			m, err := r.Instantiate(ctx, bin)
			if err != nil {
				t.Fatal(err)
			}
			if _, err := m.ExportedFunction("run").Call(ctx, 0xdeadbeef_00000007); err != nil {
				t.Fatal(err)
			}
			for i, v := range got {
				if v != 7 {
					t.Errorf("param %d: want 7 (zero-extended i32), got %#x", i, v)
				}
			}
		})
	}
}

// Same defect in the other direction (entry preamble, goEntryPreamblePassResult): when an exported function
// is called through CallWithStack, an i32 result is written into its uint64 slot with a 4-byte store, so the
// slot keeps the upper half of the parameter that occupied it: 0xdeadbeef00000005 on the compiler, 5 on the
// interpreter.
func TestC08_ResultSlotUpperHalf(t *testing.T) {
	for _, tc := range []struct {
		name string
		cfg  wazero.RuntimeConfig
	}{{"compiler", wazero.NewRuntimeConfigCompiler()}, {"interpreter", wazero.NewRuntimeConfigInterpreter()}} {
		t.Run(tc.name, func(t *testing.T) {
			ctx := context.Background()
			r := wazero.NewRuntimeWithConfig(ctx, tc.cfg)
			defer r.Close(ctx)
			// (func (export "f") (param i64) (result i32) i32.const 5)
			bin := []byte{0, 'a', 's', 'm', 1, 0, 0, 0,
				1, 6, 1, 0x60, 1, 0x7e, 1, 0x7f,
				3, 2, 1, 0,
				7, 5, 1, 1, 'f', 0, 0,
				10, 6, 1, 4, 0, 0x41, 5, 0x0b}
			m, err := r.Instantiate(ctx, bin)
			if err != nil {
				t.Fatal(err)
			}
			stack := []uint64{0xdeadbeef_00000001}
			if err := m.ExportedFunction("f").CallWithStack(ctx, stack); err != nil {
				t.Fatal(err)
			}
			if stack[0] != 5 {
				t.Errorf("result slot: want 5 (zero-extended i32), got %#x", stack[0])
			}
		})
	}
}
