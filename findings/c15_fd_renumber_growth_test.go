// Demonstration for the known finding C15 / fd_renumber table growth.
// Copy into /repo/internal/sys/ and run: go test -run TestVerifFindingRenumberGrowth ./internal/sys/
package sys

import (
	"runtime"
	"testing"

	"github.com/tetratelabs/wazero/internal/sysfs"
)

func TestVerifFindingRenumberGrowth(t *testing.T) {
	c := &Context{}
	if err := c.InitFSContext(nil, nil, nil, nil, nil, nil); err != nil {
		t.Fatal(err)
	}
	fsc := c.FS()
	fd, errno := fsc.OpenFile(sysfs.DirFS(t.TempDir()), ".", 0, 0)
	if errno != 0 {
		t.Fatal(errno)
	}
	var before, after runtime.MemStats
	runtime.ReadMemStats(&before)
	const to = 1 << 24 // a guest may pass up to 2^31-1
	if errno := fsc.Renumber(fd, to); errno != 0 {
		t.Fatal(errno)
	}
	runtime.ReadMemStats(&after)
	grew := after.TotalAlloc - before.TotalAlloc
	t.Logf("fd_renumber(%d, %d) made the host allocate %d bytes", fd, to, grew)
	if grew > 64<<20 {
		t.Errorf("allocation of %d bytes is out of proportion to any guest memory size", grew)
	}
}
