package probe13

import (
	"context"
	"testing"
	"time"

	"github.com/tetratelabs/wazero"
)

// module B: (func $loop (loop (br 0))) (func (export "mid") (call $loop))
var binB = []byte{0, 0x61, 0x73, 0x6d, 1, 0, 0, 0,
	1, 4, 1, 0x60, 0, 0,
	3, 3, 2, 0, 0,
	7, 7, 1, 3, 'm', 'i', 'd', 0, 1,
	10, 14, 2,
	7, 0, 0x03, 0x40, 0x0c, 0, 0x0b, 0x0b, // loop: loop; br 0; end; end
	4, 0, 0x10, 0, 0x0b} // mid: call 0; end

// module A: (import "b" "mid" (func $mid)) (func (export "run") (call $mid))
var binA = []byte{0, 0x61, 0x73, 0x6d, 1, 0, 0, 0,
	1, 4, 1, 0x60, 0, 0,
	2, 9, 1, 1, 'b', 3, 'm', 'i', 'd', 0, 0,
	3, 2, 1, 0,
	7, 7, 1, 3, 'r', 'u', 'n', 0, 1,
	10, 6, 1, 4, 0, 0x10, 0, 0x0b}

func spin(t *testing.T, name string, cfg wazero.RuntimeConfig) {
	ctx := context.Background()
	r := wazero.NewRuntimeWithConfig(ctx, cfg.WithCloseOnContextDone(true))
	if _, err := r.InstantiateWithConfig(ctx, binB, wazero.NewModuleConfig().WithName("b")); err != nil {
		t.Fatal(err)
	}
	a, err := r.InstantiateWithConfig(ctx, binA, wazero.NewModuleConfig().WithName("a"))
	if err != nil {
		t.Fatal(err)
	}
	cctx, cancel := context.WithTimeout(ctx, 200*time.Millisecond)
	defer cancel()
	done := make(chan error, 1)
	go func() { _, err := a.ExportedFunction("run").Call(cctx); done <- err }()
	select {
	case err := <-done:
		t.Logf("%s: stopped: %v", name, err)
	case <-time.After(5 * time.Second):
		t.Errorf("%s: a.run -> b.mid -> b.loop is still running 5s after the 200ms deadline of the call", name)
	}
}

func TestImportedLoopInterp(t *testing.T) { spin(t, "interpreter", wazero.NewRuntimeConfigInterpreter()) }

func TestImportedLoopCompiler(t *testing.T) { spin(t, "compiler", wazero.NewRuntimeConfigCompiler()) }
