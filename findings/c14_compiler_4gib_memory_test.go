package probe4

import (
	"context"
	"testing"

	"github.com/tetratelabs/wazero"
)

// (module (memory 65536) (func (export "size") (result i32) memory.size)
//         (func (export "load") (param i32) (result i32) (i32.load8_u (local.get 0))))
var bin = []byte{0, 0x61, 0x73, 0x6d, 1, 0, 0, 0,
	1, 10, 2, 0x60, 0, 1, 0x7f, 0x60, 1, 0x7f, 1, 0x7f, // types: ()->i32, (i32)->i32
	3, 3, 2, 0, 1, // funcs
	5, 5, 1, 0, 0x80, 0x80, 0x04, // memory: min 65536 (LEB 0x80 0x80 0x04)
	7, 15, 2, 4, 's', 'i', 'z', 'e', 0, 0, 4, 'l', 'o', 'a', 'd', 0, 1, // exports
	10, 14, 2, // code section, 2 bodies
	4, 0, 0x3f, 0, 0x0b, // size: memory.size 0; end
	7, 0, 0x20, 0, 0x2d, 0, 0, 0x0b} // load: local.get 0; i32.load8_u align=0 offset=0; end

func run(t *testing.T, name string, cfg wazero.RuntimeConfig) (size uint64, loadErr error) {
	ctx := context.Background()
	r := wazero.NewRuntimeWithConfig(ctx, cfg)
	defer r.Close(ctx)
	mod, err := r.Instantiate(ctx, bin)
	if err != nil {
		t.Skipf("%s: cannot instantiate a 4 GiB memory here: %v", name, err)
	}
	res, err := mod.ExportedFunction("size").Call(ctx)
	if err != nil {
		t.Fatal(err)
	}
	_, loadErr = mod.ExportedFunction("load").Call(ctx, 0)
	t.Logf("%s: memory.size = %d pages (host API: %d bytes), load(0) error: %v", name, res[0], uint64(mod.Memory().Size())+0, loadErr)
	return res[0], loadErr
}

func TestFourGiBMemory(t *testing.T) {
	is, ie := run(t, "interpreter", wazero.NewRuntimeConfigInterpreter())
	cs, ce := run(t, "compiler", wazero.NewRuntimeConfigCompiler())
	if is != cs || (ie == nil) != (ce == nil) {
		t.Errorf("engines disagree on a 65536-page memory: interpreter size=%d load err=%v, compiler size=%d load err=%v", is, ie, cs, ce)
	}
}
