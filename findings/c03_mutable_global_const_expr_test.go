package probe6

import (
	"context"
	"testing"

	"github.com/tetratelabs/wazero"
)

// (module (import "m" "g" (global (mut i32))) (global i32 (global.get 0)))
// invalid: a constant expression may only read immutable (imported) globals.
var bin = []byte{0, 0x61, 0x73, 0x6d, 1, 0, 0, 0,
	2, 8, 1, 1, 'm', 1, 'g', 3, 0x7f, 1, // import m.g global i32 mut
	6, 6, 1, 0x7f, 0, 0x23, 0, 0x0b} // global i32 const, init: global.get 0; end

func TestMutableGlobalInConstExpr(t *testing.T) {
	ctx := context.Background()
	for _, cfg := range []wazero.RuntimeConfig{wazero.NewRuntimeConfigInterpreter(), wazero.NewRuntimeConfigCompiler()} {
		r := wazero.NewRuntimeWithConfig(ctx, cfg)
		_, err := r.CompileModule(ctx, bin)
		t.Logf("CompileModule: err=%v", err)
		if err == nil {
			t.Errorf("an invalid module (mutable global read in a constant expression) was accepted")
		}
		r.Close(ctx)
	}
}
