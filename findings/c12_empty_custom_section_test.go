package probe11

import (
	"context"
	"testing"

	"github.com/tetratelabs/wazero"
)

// A valid module that ends with a custom section "x" that has an empty payload:
// magic, version, custom section id 0, size 2, name length 1, 'x'.
var bin = []byte{0, 0x61, 0x73, 0x6d, 1, 0, 0, 0, 0, 2, 1, 'x'}

func TestDebugInfoSettingIsNotSemantic(t *testing.T) {
	ctx := context.Background()
	var errs []error
	for _, dbg := range []bool{true, false} {
		r := wazero.NewRuntimeWithConfig(ctx, wazero.NewRuntimeConfigInterpreter().WithDebugInfoEnabled(dbg))
		_, err := r.CompileModule(ctx, bin)
		t.Logf("WithDebugInfoEnabled(%v): CompileModule err=%v", dbg, err)
		errs = append(errs, err)
		r.Close(ctx)
	}
	if (errs[0] == nil) != (errs[1] == nil) {
		t.Errorf("a tooling setting (debug info) changes whether a module is accepted")
	}
}
